//go:build verif

package tlb

// Bounded stand-in for C18 (labelled bounded, never counted as proved).
// Oracles: c18Hasher (independent level-aware representation hash over the public cell API) and c18Walk (independent
// interpreter of the Hashmap TL-B schema), both in refhash_helper_test.go.
//
// Bound (quick tier):
//   A. dictionaries with 8-bit keys: every non-empty subset of the 10 candidate keys {00,01,02,40,7f,80,81,aa,fe,ff} (1023 key
//      sets, alternating Hashmap / HashmapE), Uint32 values; every present key is proven, every absent candidate plus
//      {03,41,c0} must be refused  (thorough: 13 candidates = 8191 key sets);
//   B. 300 rounds (thorough 6000) of random dictionaries with 1..6 entries (thorough: 1..12) for each of the key widths 16
//      (values with a child cell, every 4th round clustered keys), 32, 64 and 256 bits (random / differing only in the last
//      byte / only in the first byte, i.e. long labels and early forks); 2 absent keys each;
//   C. cell trees x pruned sets through the cursor API: 6 fixed trees (shared sub-trees, 1023-bit cells, a chain, a library
//      cell) x every subset of their non-root cells.
// Per proof: the bag of cells has one root; the root is a Merkle-proof cell with data 03 | hash | depth of the original root
// (library hash and independent hash agree); the level-0 hash / depth of the proof body, computed independently, equals it;
// walking original and proof in parallel, every cell is either identical or a pruned branch 01 | 01 | hash | depth of the
// sub-tree it replaces; the pruned cells are exactly the siblings along the key's path; levels are consistent; the value decodes
// (returned value, independent walk of the proof, and the library's own decoding of the proof).

import (
	"bytes"
	"fmt"
	"math/bits"
	"math/rand"
	"os"
	"reflect"
	"sort"
	"testing"

	"github.com/tonkeeper/tongo/boc"
)

type c18Env struct {
	t        *testing.T
	rep      *c18Reporter
	cases    int
	distinct map[string]bool
}

type c18ValRef struct {
	A Uint32
	B Uint64 `tlb:"^"`
}

// c18CheckProof checks a proof for origRoot. prunedWant lists the cells of the original tree that must be replaced
// (nil: do not check the exact set). It returns the proof body.
func (e *c18Env) checkProof(what string, proof []byte, origRoot *boc.Cell, refH *c18Hasher, prunedWant map[string]bool) *boc.Cell {
	e.distinct[string(proof)] = true
	orig, err := refH.hashDepth(origRoot, 0)
	if err != nil {
		e.rep.errorf("%s: reference cannot hash the original: %v", what, err)
		return nil
	}
	if lh, err := origRoot.Hash(); err != nil || !bytes.Equal(lh, orig.hash[:]) {
		e.rep.errorf("%s: library hash of the original root %x (%v), reference %x", what, lh, err, orig.hash)
	}
	roots, err := boc.DeserializeBoc(proof)
	if err != nil || len(roots) != 1 {
		e.rep.errorf("%s: proof %x does not parse into one root: %d, %v", what, proof, len(roots), err)
		return nil
	}
	root := roots[0]
	if root.CellType() != boc.MerkleProofCell || len(root.Refs()) != 1 {
		e.rep.errorf("%s: proof root has type %d and %d refs; proof %x", what, root.CellType(), len(root.Refs()), proof)
		return nil
	}
	data, nb := c18Data(root)
	want := append([]byte{3}, orig.hash[:]...)
	want = append(want, byte(orig.depth>>8), byte(orig.depth))
	if nb != 280 || !bytes.Equal(data, want) {
		e.rep.errorf("%s: proof root data %x (%d bits), want %x; proof %x", what, data, nb, want, proof)
	}
	body := root.Refs()[0]
	ph := newC18Hasher()
	bv, err := ph.hashDepth(body, 0)
	if err != nil || bv != orig {
		e.rep.errorf("%s: level-0 hash/depth of the proof body %x/%d (%v), original root %x/%d; proof %x", what, bv.hash, bv.depth, err, orig.hash, orig.depth, proof)
	}
	// levels: the specification's mask for every cell of the proof, the root must be of level 0
	var lv func(c *boc.Cell)
	seen := map[*boc.Cell]bool{}
	lv = func(c *boc.Cell) {
		if seen[c] {
			return
		}
		seen[c] = true
		m, err := ph.mask(c)
		if err != nil {
			e.rep.errorf("%s: malformed cell in the proof: %v; proof %x", what, err, proof)
			return
		}
		if c.Level() != bits.Len(uint(m)) {
			e.rep.errorf("%s: cell %s has Level() %d, specification %d; proof %x", what, c18Dump(c), c.Level(), bits.Len(uint(m)), proof)
		}
		for _, r := range c.Refs() {
			lv(r)
		}
	}
	lv(root)
	if m, err := ph.mask(root); err != nil || m != 0 {
		e.rep.errorf("%s: proof root has level mask %d (%v), want 0; proof %x", what, m, err, proof)
	}
	if tv, err := ph.hashDepth(root, 3); err == nil {
		if lh, err := root.Hash(); err != nil || !bytes.Equal(lh, tv.hash[:]) {
			e.rep.errorf("%s: library hash of the proof root %x (%v), reference %x; proof %x", what, lh, err, tv.hash, proof)
		}
	}
	// parallel walk
	// pruning is per POSITION (path of reference indexes from the root): a cell that occurs at several positions may be
	// pruned at one of them and present at another
	prunedGot := map[string]bool{}
	var cmp func(o, p *boc.Cell, path string)
	cmp = func(o, p *boc.Cell, path string) {
		if p.CellType() == boc.PrunedBranchCell && o.CellType() != boc.PrunedBranchCell {
			ov, err := refH.hashDepth(o, 0)
			if err != nil {
				e.rep.errorf("%s: reference: %v", what, err)
				return
			}
			pd, pn := c18Data(p)
			w := append([]byte{1, 1}, ov.hash[:]...)
			w = append(w, byte(ov.depth>>8), byte(ov.depth))
			if pn != 288 || !bytes.Equal(pd, w) || len(p.Refs()) != 0 {
				e.rep.errorf("%s: pruned branch at %s holds %x (%d bits, %d refs), the replaced sub-tree needs %x; proof %x", what, path, pd, pn, len(p.Refs()), w, proof)
			}
			prunedGot[path] = true
			return
		}
		od, on := c18Data(o)
		pd, pn := c18Data(p)
		if o.CellType() != p.CellType() || on != pn || !bytes.Equal(od, pd) || len(o.Refs()) != len(p.Refs()) {
			e.rep.errorf("%s: proof cell at %s is t%d %x (%d bits, %d refs), original t%d %x (%d bits, %d refs); proof %x",
				what, path, p.CellType(), pd, pn, len(p.Refs()), o.CellType(), od, on, len(o.Refs()), proof)
			return
		}
		for i := range o.Refs() {
			cmp(o.Refs()[i], p.Refs()[i], fmt.Sprintf("%s/%d", path, i))
		}
	}
	cmp(origRoot, body, "body")
	if prunedWant != nil {
		for c := range prunedWant {
			if !prunedGot[c] {
				e.rep.errorf("%s: the sub-tree at %s should be pruned but is present (or unreachable); proof %x", what, c, proof)
			}
		}
		for c := range prunedGot {
			if !prunedWant[c] {
				e.rep.errorf("%s: the sub-tree at %s is pruned but should be present; proof %x", what, c, proof)
			}
		}
	}
	return body
}

func c18BitsOf(o any) (boc.BitString, []bool, error) {
	c := boc.NewCell()
	if err := Marshal(c, o); err != nil {
		return boc.BitString{}, nil, err
	}
	return c.RawBitString(), c18Bits(c), nil
}

// c18RunDict proves every present key and refuses every absent one.
func c18RunDict[K fixedSize, V any](e *c18Env, name string, keys []K, vals []V, absent []K, useE bool, sharedProver bool) {
	what := fmt.Sprintf("%s keys=%v vals=%v hashmapE=%v", name, keys, vals, useE)
	defer func() {
		if r := recover(); r != nil {
			e.rep.errorf("%s: panic: %v", what, r)
		}
	}()
	cell := boc.NewCell()
	var dict *boc.Cell
	if useE {
		if err := Marshal(cell, NewHashmapE(keys, vals)); err != nil {
			e.rep.errorf("%s: Marshal: %v", what, err)
			return
		}
		if cell.BitSize() != 1 || len(cell.Refs()) != 1 {
			e.rep.errorf("%s: HashmapE cell has %d bits and %d refs", what, cell.BitSize(), len(cell.Refs()))
			return
		}
		dict = cell.Refs()[0]
	} else {
		if err := Marshal(cell, NewHashmap(keys, vals)); err != nil {
			e.rep.errorf("%s: Marshal: %v", what, err)
			return
		}
		dict = cell
	}
	refH := newC18Hasher()
	before, err := refH.hashDepth(dict, 0)
	if err != nil {
		e.rep.errorf("%s: reference: %v", what, err)
		return
	}
	var prover *boc.MerkleProver
	for i, k := range keys {
		e.cases++
		kw := fmt.Sprintf("%s prove key #%d (%v)", what, i, k)
		kbs, kbits, err := c18BitsOf(k)
		if err != nil {
			e.rep.errorf("%s: %v", kw, err)
			continue
		}
		w0, err := c18Walk(dict, kbits)
		if err != nil || !w0.found {
			e.rep.errorf("%s: HARNESS/encoder: independent walk does not find the key in the marshalled dictionary (%v) %s", kw, err, c18Dump(dict))
			continue
		}
		if prover == nil || !sharedProver {
			if prover, err = boc.NewMerkleProver(dict); err != nil {
				e.rep.errorf("%s: NewMerkleProver: %v", kw, err)
				return
			}
		}
		dict.ResetCounters()
		val, proof, err := ProveKeyInHashmap[V](prover, dict, kbs)
		if err != nil || proof == nil {
			e.rep.errorf("%s: ProveKeyInHashmap failed: %v; dictionary %s", kw, err, c18Dump(dict))
			continue
		}
		if !reflect.DeepEqual(val, vals[i]) {
			e.rep.errorf("%s: returned value %v, want %v", kw, val, vals[i])
		}
		sib := map[*boc.Cell]bool{}
		for _, s := range w0.siblings {
			sib[s] = true
		}
		wantPruned := c18Positions(dict, sib)
		body := e.checkProof(kw, proof, dict, refH, wantPruned)
		if body == nil {
			continue
		}
		// the value can be read from the proof: independent walk ...
		w1, err := c18Walk(body, kbits)
		if err != nil || !w1.found {
			e.rep.errorf("%s: the key cannot be followed through the proof (%v); proof %x", kw, err, proof)
		} else {
			_, vb, _ := c18BitsOf(vals[i])
			if len(w1.value) < len(vb) || !reflect.DeepEqual(w1.value[:len(vb)], vb) || !reflect.DeepEqual(w1.value, w0.value) {
				e.rep.errorf("%s: leaf of the proof carries %v, the value is %v; proof %x", kw, w1.value, vb, proof)
			}
		}
		// ... and the library's own decoder
		roots, _ := boc.DeserializeBoc(proof)
		var mp MerkleProof[Hashmap[K, V]]
		if err := Unmarshal(roots[0], &mp); err != nil {
			e.rep.errorf("%s: decoding the proof as MerkleProof[Hashmap]: %v; proof %x", kw, err, proof)
		} else {
			if mp.VirtualHash != Bits256(before.hash) || int(mp.Depth) != before.depth {
				e.rep.errorf("%s: decoded proof commits to %x/%d, original %x/%d", kw, mp.VirtualHash, mp.Depth, before.hash, before.depth)
			}
			ks, vs := mp.VirtualRoot.Keys(), mp.VirtualRoot.Values()
			if len(ks) != 1 || !ks[0].Equal(k) || !reflect.DeepEqual(vs[0], vals[i]) {
				e.rep.errorf("%s: decoded proof holds keys %v values %v, want the proven pair only; proof %x", kw, ks, vs, proof)
			}
		}
	}
	for _, k := range absent {
		e.cases++
		kw := fmt.Sprintf("%s absent key %v", what, k)
		kbs, kbits, err := c18BitsOf(k)
		if err != nil {
			e.rep.errorf("%s: %v", kw, err)
			continue
		}
		if w, err := c18Walk(dict, kbits); err != nil || w.found {
			e.rep.errorf("%s: HARNESS: key is not absent (%v)", kw, err)
			continue
		}
		if prover == nil || !sharedProver {
			if prover, err = boc.NewMerkleProver(dict); err != nil {
				e.rep.errorf("%s: NewMerkleProver: %v", kw, err)
				return
			}
		}
		dict.ResetCounters()
		_, proof, err := ProveKeyInHashmap[V](prover, dict, kbs)
		if err == nil || proof != nil {
			e.rep.errorf("%s: got a proof (%x, err %v) for a key that is not in the dictionary %s", kw, proof, err, c18Dump(dict))
		}
	}
	// proving must not alter the dictionary
	dict.ResetCounters()
	if after, err := newC18Hasher().hashDepth(dict, 0); err != nil || after != before {
		e.rep.errorf("%s: dictionary hash changed while proving: %x -> %x (%v)", what, before.hash, after.hash, err)
	}
}

func c18SortedUnique[K any](keys []K, less func(a, b K) bool) []K {
	sort.Slice(keys, func(i, j int) bool { return less(keys[i], keys[j]) })
	out := keys[:0]
	for i, k := range keys {
		if i > 0 && !less(keys[i-1], k) {
			continue
		}
		out = append(out, k)
	}
	return out
}

func (e *c18Env) partA(thorough bool) {
	universe := []Uint8{0x00, 0x01, 0x02, 0x40, 0x7f, 0x80, 0x81, 0xaa, 0xfe, 0xff}
	if thorough {
		universe = []Uint8{0x00, 0x01, 0x02, 0x04, 0x3f, 0x40, 0x7f, 0x80, 0x81, 0xaa, 0xbf, 0xfe, 0xff}
	}
	extra := []Uint8{0x03, 0x41, 0xc0}
	for set := 1; set < 1<<uint(len(universe)); set++ {
		var keys, absent []Uint8
		var vals []Uint32
		for i, k := range universe {
			if set>>uint(i)&1 != 0 {
				keys = append(keys, k)
				vals = append(vals, Uint32(0xA0000000+uint32(k)*257))
			} else {
				absent = append(absent, k)
			}
		}
		absent = append(absent, extra...)
		c18RunDict(e, "A: 8-bit", keys, vals, absent, set%2 == 0, set%3 != 0)
	}
}

func (e *c18Env) partB(thorough bool, rng *rand.Rand) {
	maxN, rounds := 6, 300
	if thorough {
		maxN, rounds = 12, 6000
	}
	for r := 0; r < rounds; r++ {
		n := 1 + r%maxN
		// 16-bit keys, values with a child cell
		{
			var ks []Uint16
			for i := 0; i < n+2; i++ {
				ks = append(ks, Uint16(rng.Intn(1<<16)))
			}
			if r%4 == 0 { // clustered keys
				for i := range ks {
					ks[i] = ks[0]&0xfff0 | Uint16(rng.Intn(16))
				}
			}
			ks = c18SortedUnique(ks, func(a, b Uint16) bool { return a < b })
			if len(ks) >= 3 {
				absent := []Uint16{ks[len(ks)-1], ks[0]}
				ks = ks[1 : len(ks)-1]
				vals := make([]c18ValRef, len(ks))
				for i := range vals {
					vals[i] = c18ValRef{A: Uint32(rng.Uint32()), B: Uint64(rng.Uint64())}
				}
				c18RunDict(e, "B: 16-bit", ks, vals, absent, r%2 == 0, r%3 == 0)
			}
		}
		// 32-bit keys
		{
			var ks []Uint32
			for i := 0; i < n+2; i++ {
				ks = append(ks, Uint32(rng.Uint32()))
			}
			ks = c18SortedUnique(ks, func(a, b Uint32) bool { return a < b })
			if len(ks) >= 3 {
				absent := []Uint32{ks[len(ks)/2], ks[0]}
				ks = append(append([]Uint32{}, ks[1:len(ks)/2]...), ks[len(ks)/2+1:]...)
				if len(ks) > 0 {
					vals := make([]Uint64, len(ks))
					for i := range vals {
						vals[i] = Uint64(rng.Uint64())
					}
					c18RunDict(e, "B: 32-bit", ks, vals, absent, r%2 == 1, r%3 == 1)
				}
			}
		}
		// 64-bit keys
		{
			var ks []Uint64
			for i := 0; i < n+1; i++ {
				ks = append(ks, Uint64(rng.Uint64()))
			}
			ks = c18SortedUnique(ks, func(a, b Uint64) bool { return a < b })
			if len(ks) >= 2 {
				absent := []Uint64{ks[len(ks)-1], ks[0] ^ 1}
				ks = ks[:len(ks)-1]
				vals := make([]Uint8, len(ks))
				for i := range vals {
					vals[i] = Uint8(rng.Intn(256))
				}
				c18RunDict(e, "B: 64-bit", ks, vals, absent, r%2 == 0, true)
			}
		}
		// 256-bit keys: random, and close to each other (long common prefixes / early forks)
		{
			var ks []Bits256
			var base Bits256
			rng.Read(base[:])
			for i := 0; i < n+1; i++ {
				var k Bits256
				switch r % 3 {
				case 0:
					rng.Read(k[:])
				case 1: // differ in the last byte only
					k = base
					k[31] = byte(rng.Intn(256))
				default: // differ in the first byte only
					k = base
					k[0] = byte(rng.Intn(256))
				}
				ks = append(ks, k)
			}
			ks = c18SortedUnique(ks, func(a, b Bits256) bool { return bytes.Compare(a[:], b[:]) < 0 })
			if len(ks) >= 2 {
				flipped := ks[0]
				flipped[16] ^= 0x10
				absent := []Bits256{ks[len(ks)-1], flipped}
				ks = ks[:len(ks)-1]
				vals := make([]Uint32, len(ks))
				for i := range vals {
					vals[i] = Uint32(rng.Uint32())
				}
				c18RunDict(e, "B: 256-bit", ks, vals, absent, r%2 == 1, r%2 == 0)
			}
		}
	}
}

// partC: arbitrary cell trees, arbitrary pruned sets through the cursor API.
func (e *c18Env) partC(thorough bool) {
	mk := func(seed uint64, nbits int, kids ...*boc.Cell) *boc.Cell {
		c := boc.NewCell()
		x := seed*0x9e3779b97f4a7c15 + 12345
		for i := 0; i < nbits; i++ {
			x ^= x << 13
			x ^= x >> 7
			x ^= x << 17
			_ = c.WriteBit(x&1 != 0)
		}
		for _, k := range kids {
			_ = c.AddRef(k)
		}
		return c
	}
	lib := boc.NewCellExotic(boc.LibraryCell)
	_ = lib.WriteUint(2, 8)
	_ = lib.WriteBytes(bytes.Repeat([]byte{0x5a}, 32))
	leaf := mk(1, 9)
	shared := mk(2, 255, leaf)
	trees := []*boc.Cell{
		mk(10, 1, mk(11, 0), mk(12, 7)),
		mk(20, 1023, mk(21, 1023, mk(22, 1023)), mk(23, 8)),
		mk(30, 5, shared, mk(31, 3, shared, leaf), leaf),
		mk(40, 0, mk(41, 0, mk(42, 0, mk(43, 0, mk(44, 1))))),
		mk(50, 16, mk(51, 1), mk(52, 2), mk(53, 3), mk(54, 4)),
		mk(60, 33, lib, mk(61, 4, lib)),
	}
	if thorough {
		trees = append(trees,
			mk(70, 9, mk(71, 1, mk(72, 2), mk(73, 3)), mk(74, 4, mk(75, 5), mk(76, 6)), mk(77, 7)),
			mk(80, 1, shared, shared, shared, shared),
		)
	}
	for ti, tree := range trees {
		// distinct non-root cells with one path each
		type node struct {
			c    *boc.Cell
			path []int
		}
		var nodes []node
		seen := map[*boc.Cell]bool{tree: true}
		var walk func(c *boc.Cell, p []int)
		walk = func(c *boc.Cell, p []int) {
			for i, r := range c.Refs() {
				if seen[r] {
					continue
				}
				seen[r] = true
				np := append(append([]int{}, p...), i)
				nodes = append(nodes, node{r, np})
				walk(r, np)
			}
		}
		walk(tree, nil)
		for set := 0; set < 1<<uint(len(nodes)); set++ {
			e.cases++
			what := fmt.Sprintf("C: tree %d %s pruned-set=%b", ti, c18Dump(tree), set)
			func() {
				defer func() {
					if r := recover(); r != nil {
						e.rep.errorf("%s: panic: %v", what, r)
					}
				}()
				prover, err := boc.NewMerkleProver(tree)
				if err != nil {
					e.rep.errorf("%s: NewMerkleProver: %v", what, err)
					return
				}
				cur := prover.Cursor()
				chosen := map[string]bool{}
				for i, nd := range nodes {
					if set>>uint(i)&1 == 0 {
						continue
					}
					c := cur
					pos := "body"
					for _, k := range nd.path {
						c = c.Ref(k)
						pos = fmt.Sprintf("%s/%d", pos, k)
					}
					c.Prune()
					chosen[pos] = true
				}
				proof, err := prover.CreateProof(cur)
				if err != nil {
					e.rep.errorf("%s: CreateProof: %v", what, err)
					return
				}
				// expected pruned positions: the chosen ones that are reachable without passing through another chosen one
				want := map[string]bool{}
				var reach func(c *boc.Cell, pos string)
				reach = func(c *boc.Cell, pos string) {
					if chosen[pos] {
						want[pos] = true
						return
					}
					for i, r := range c.Refs() {
						reach(r, fmt.Sprintf("%s/%d", pos, i))
					}
				}
				reach(tree, "body")
				e.checkProof(what, proof, tree, newC18Hasher(), want)
			}()
		}
	}
}

func TestVerifStandin_C18_Proofs(t *testing.T) {
	thorough := os.Getenv("VERIF_TIER") == "thorough"
	e := &c18Env{t: t, rep: &c18Reporter{t: t, max: 3}, distinct: map[string]bool{}}
	defer func() {
		e.rep.done()
		fmt.Printf("STANDIN-STAT name=c18_proofs cases=%d distinct=%d\n", e.cases, len(e.distinct))
	}()
	rng := rand.New(rand.NewSource(c18Seed()))
	e.partA(thorough)
	a := e.cases
	e.partB(thorough, rng)
	b := e.cases
	e.partC(thorough)
	t.Logf("cases: A %d, B %d, C %d", a, b-a, e.cases-b)
}

// c18Positions returns the positions ("body/i/j...") at which the given cells occur in the tree under root
func c18Positions(root *boc.Cell, cells map[*boc.Cell]bool) map[string]bool {
	out := map[string]bool{}
	var walk func(c *boc.Cell, pos string)
	walk = func(c *boc.Cell, pos string) {
		if cells[c] {
			out[pos] = true
			return
		}
		for i, r := range c.Refs() {
			walk(r, fmt.Sprintf("%s/%d", pos, i))
		}
	}
	walk(root, "body")
	return out
}
