//go:build verif

package tlb

// Bounded stand-in for C04 (labelled bounded, never counted as proved): TL-B encodings are bit-exact with the schema.
//
// Bound (quick tier; thorough multiplies the random counts by ~15):
//   - TestVerifStandin_C04_BitExact/primitives: Uint1..64, Int1..64, Go ints, Uint/Int 128/256/257, VarUInteger1..32
//     (every byte length), Bits80..512, bool, Unary, Maybe / `maybe` / `maybe^` / `^` tags, Either, EitherRef, Ref,
//     Magic `#hex` / `$bin` tags and union tags, over the boundary lists of the C03 generator: the cell produced by
//     tlb.Marshal must have exactly the bits / refs computed here from the TL-B definition.
//   - .../tags: the constructor tags of the unions and magics of messages.go / account.go / transactions.go /
//     models.go / stack.go as written in block.tlb (table typed in by hand below) against the struct tags and against
//     the bits actually emitted; the three 2-3 bit enumerations.
//   - .../core: 300 random values each of MsgAddress, Grams, CurrencyCollection, CommonMsgInfo, StateInit, Message
//     (body and init inline / in a reference) against a hand-written encoder; dictionaries inside are compared through
//     the reference dictionary parser (any valid label form accepted, mapping and value bits must be exact).
//   - TestVerifStandin_C04_RealData: every transaction, message and fully present account, and InMsg / OutMsg records
//     (quick: ~100 evenly spaced per block, thorough: all) of the five blocks in testdata: decode -> encode -> same
//     cell hash as the source cell. Transactions / InMsg / OutMsg are encoded through the public API; only if that
//     panics (as it did before the unexported-field fix) they are encoded again through a copy of the value whose
//     Transaction structs lack the unexported cache fields (counters *_fields), so that the layout is still checked.
//
// Allow-list for real data (a different hash is tolerated ONLY in this case, everything else fails): the source and
// the re-encoded tree are identical except that dictionary edges carry the same label in a different valid form
// (hml_short / hml_long / hml_same; the schema does not make the label form unique, so C04 does not require the hash
// there) AND the re-encoded tree decodes to a value equal (vhDiff) to the one decoded from the source. Such cases are
// only counted (C04-REALDATA ...differs_label_form_only(tolerated,...) lines, split by which side deviates from the
// shortest form the reference implementation emits). Either-side and Maybe choices are kept by the decoded value, so
// they never explain a difference.

import (
	"fmt"
	"math/big"
	"math/rand"
	"os"
	"path/filepath"
	"reflect"
	"runtime/debug"
	"sort"
	"strings"
	"testing"

	"github.com/tonkeeper/tongo/boc"
)

// ---- expected encodings ----

type c04Enc struct {
	bits string
	refs []c04Ref
}

type c04Ref struct {
	cell *boc.Cell         // a concrete cell, or
	enc  *c04Enc           // a cell described by an expected encoding, or
	dict map[string]c04Enc // the root cell of a (Hashmap n X): key bits -> expected value encoding
	n    int               // key length of dict
}

func (e *c04Enc) add(o c04Enc) *c04Enc {
	e.bits += o.bits
	e.refs = append(e.refs, o.refs...)
	return e
}
func (e *c04Enc) b(bits string) *c04Enc { e.bits += bits; return e }

// c04Compare checks a cell view (bits, refs) against an expected encoding.
func c04Compare(bits string, refs []*boc.Cell, exp c04Enc, path string) string {
	if bits != exp.bits {
		return fmt.Sprintf("%s: bits %s (%d) want %s (%d)", path, vhBin2Hex(bits), len(bits), vhBin2Hex(exp.bits), len(exp.bits))
	}
	if len(refs) != len(exp.refs) {
		return fmt.Sprintf("%s: %d refs want %d", path, len(refs), len(exp.refs))
	}
	for i, r := range exp.refs {
		p := fmt.Sprintf("%s.ref%d", path, i)
		a := refs[i]
		if a.CellType() != boc.OrdinaryCell && r.cell == nil {
			return p + ": unexpected exotic cell"
		}
		switch {
		case r.cell != nil:
			if vhTree(a) != vhTree(r.cell) {
				return fmt.Sprintf("%s: cell %s want %s", p, vhTree(a), vhTree(r.cell))
			}
		case r.enc != nil:
			if d := c04Compare(vhCellBits(a), a.Refs(), *r.enc, p); d != "" {
				return d
			}
		default:
			leaves, _, err := vhDictParseCell(a, r.n)
			if err != nil {
				return fmt.Sprintf("%s: not a valid Hashmap %d: %v (%s)", p, r.n, err, vhTree(a))
			}
			if len(leaves) != len(r.dict) {
				return fmt.Sprintf("%s: dictionary has %d entries want %d", p, len(leaves), len(r.dict))
			}
			for i, l := range leaves {
				if i > 0 && leaves[i-1].Key >= l.Key {
					return fmt.Sprintf("%s: dictionary keys out of order", p)
				}
				want, ok := r.dict[l.Key]
				if !ok {
					return fmt.Sprintf("%s: unexpected key %s", p, vhBin2Hex(l.Key))
				}
				if d := c04Compare(l.ValBits, l.ValRefs, want, p+"["+vhBin2Hex(l.Key)+"]"); d != "" {
					return d
				}
			}
		}
	}
	return ""
}

func c04MarshalCompare(v any, exp c04Enc) string {
	c := boc.NewCell()
	var err error
	if p := vhSafe(func() { err = Marshal(c, v) }); p != "" {
		return "Marshal panic: " + p
	}
	if len(exp.bits) > 1023 || len(exp.refs) > 4 {
		// the schema encoding does not fit one cell: the only acceptable outcome is an error
		if err == nil {
			return fmt.Sprintf("value needs %d bits / %d refs but Marshal returned no error (cell %s)", len(exp.bits), len(exp.refs), vhTree(c))
		}
		return ""
	}
	if err != nil {
		return "Marshal error: " + err.Error()
	}
	return c04Compare(vhCellBits(c), c.Refs(), exp, "")
}

// ---- schema oracle for primitives ----

func c04VarUInt(n int, v *big.Int) c04Enc {
	// var_uint$_ {n:#} len:(#< n) value:(uint (len * 8)) = VarUInteger n;  minimal len
	l := (v.BitLen() + 7) / 8
	return c04Enc{bits: vhU64Bits(uint64(l), vhLenBits(n-1)) + vhUintBits(v, l*8)}
}

func c04Grams(g uint64) c04Enc { return c04VarUInt(16, new(big.Int).SetUint64(g)) }

// c04Leaf computes the expected encoding of a leaf value of the generated / plain integer families.
func c04Leaf(v reflect.Value) (c04Enc, bool) {
	t := v.Type()
	fam, n, named := c03Named(t)
	switch {
	case t.Kind() == reflect.Bool:
		if v.Bool() {
			return c04Enc{bits: "1"}, true
		}
		return c04Enc{bits: "0"}, true
	case t == c03UnaryType:
		return c04Enc{bits: strings.Repeat("1", int(v.Uint())) + "0"}, true
	case t == c03GramsType:
		return c04Grams(v.Uint()), true
	case named && fam == "VarUInteger":
		i := v.Convert(vhBigIntType).Interface().(big.Int)
		return c04VarUInt(n, &i), true
	case named:
		return c04Enc{bits: c03KeyBits(v)}, true
	}
	if signed, w, ok := c03KindWidth(t.Kind()); ok && t.PkgPath() == "" {
		if signed {
			return c04Enc{bits: vhI64Bits(v.Int(), w)}, true
		}
		return c04Enc{bits: vhU64Bits(v.Uint(), w)}, true
	}
	return c04Enc{}, false
}

// ---- hand-written encoders of the core block.tlb structures ----

func c04Anycast(m Maybe[Anycast]) c04Enc {
	if !m.Exists {
		return c04Enc{bits: "0"}
	}
	// anycast_info$_ depth:(#<= 30) { depth >= 1 } rewrite_pfx:(bits depth) = Anycast;
	return c04Enc{bits: "1" + vhU64Bits(uint64(m.Value.Depth), 5) + vhU64Bits(uint64(m.Value.RewritePfx), int(m.Value.Depth))}
}

func c04Addr(a MsgAddress) c04Enc {
	var e c04Enc
	switch a.SumType {
	case "AddrNone": // addr_none$00
		e.b("00")
	case "AddrExtern": // addr_extern$01 len:(## 9) external_address:(bits len)
		s := vhBitsOf(*a.AddrExtern)
		e.b("01").b(vhU64Bits(uint64(len(s)), 9)).b(s)
	case "AddrStd": // addr_std$10 anycast:(Maybe Anycast) workchain_id:int8 address:bits256
		e.b("10").add(c04Anycast(a.AddrStd.Anycast)).b(vhI64Bits(int64(a.AddrStd.WorkchainId), 8)).b(vhBytesBits(a.AddrStd.Address[:]))
	case "AddrVar": // addr_var$11 anycast:(Maybe Anycast) addr_len:(## 9) workchain_id:int32 address:(bits addr_len)
		s := vhBitsOf(a.AddrVar.Address)
		e.b("11").add(c04Anycast(a.AddrVar.Anycast)).b(vhU64Bits(uint64(a.AddrVar.AddrLen), 9)).b(vhI64Bits(int64(a.AddrVar.WorkchainId), 32)).b(s)
	}
	return e
}

// currencies$_ grams:Grams other:ExtraCurrencyCollection; extra_currencies$_ dict:(HashmapE 32 (VarUInteger 32))
func c04CC(grams uint64, extra map[uint32]*big.Int) c04Enc {
	e := c04Grams(grams)
	if len(extra) == 0 {
		return *e.b("0")
	}
	d := map[string]c04Enc{}
	for k, v := range extra {
		d[vhU64Bits(uint64(k), 32)] = c04VarUInt(32, v)
	}
	e.b("1")
	e.refs = append(e.refs, c04Ref{dict: d, n: 32})
	return e
}

type c04CCVal struct {
	grams uint64
	extra map[uint32]*big.Int
}

func c04RandGrams(rng *rand.Rand) uint64 {
	switch rng.Intn(8) {
	case 0:
		return 0
	case 1:
		return uint64(rng.Intn(256))
	case 2:
		return 1<<63 - 1
	case 3:
		return 1 << 63
	case 4:
		return 1<<64 - 1
	}
	return rng.Uint64() >> uint(rng.Intn(64))
}

func c04RandCC(rng *rand.Rand) (CurrencyCollection, c04CCVal) {
	v := c04CCVal{grams: c04RandGrams(rng), extra: map[uint32]*big.Int{}}
	cc := CurrencyCollection{Grams: Grams(v.grams)}
	if rng.Intn(3) == 0 {
		n := 1 + rng.Intn(3)
		for i := 0; i < n; i++ {
			k := []uint32{0, 1, 0xffffffff, 0x80000000, rng.Uint32()}[rng.Intn(5)]
			v.extra[k] = vhRandBig(rng, 8*rng.Intn(32))
		}
		var keys []uint32
		for k := range v.extra {
			keys = append(keys, k)
		}
		sort.Slice(keys, func(i, j int) bool { return keys[i] < keys[j] })
		for _, k := range keys {
			cc.Other.Dict.Put(Uint32(k), VarUInteger32(*v.extra[k]))
		}
	}
	return cc, v
}

func c04RandAddr(rng *rand.Rand, kinds string) MsgAddress {
	all := c03MkMsgAddresses(rng)
	for {
		a := all[rng.Intn(len(all))]
		if strings.Contains(kinds, string(a.SumType)) {
			return a
		}
	}
}

type c04Info struct {
	v   CommonMsgInfo
	enc c04Enc
}

func c04RandInfo(rng *rand.Rand) c04Info {
	var e c04Enc
	var v CommonMsgInfo
	bit := func(b bool) string {
		if b {
			return "1"
		}
		return "0"
	}
	switch rng.Intn(3) {
	case 0:
		// int_msg_info$0 ihr_disabled:Bool bounce:Bool bounced:Bool src:MsgAddressInt dest:MsgAddressInt
		// value:CurrencyCollection ihr_fee:Grams fwd_fee:Grams created_lt:uint64 created_at:uint32
		cc, ccv := c04RandCC(rng)
		x := struct {
			IhrDisabled bool
			Bounce      bool
			Bounced     bool
			Src         MsgAddress
			Dest        MsgAddress
			Value       CurrencyCollection
			IhrFee      Grams
			FwdFee      Grams
			CreatedLt   uint64
			CreatedAt   uint32
		}{rng.Intn(2) == 0, rng.Intn(2) == 0, rng.Intn(2) == 0, c04RandAddr(rng, "AddrStd AddrVar AddrNone"), c04RandAddr(rng, "AddrStd AddrVar"),
			cc, Grams(c04RandGrams(rng)), Grams(c04RandGrams(rng)), rng.Uint64(), rng.Uint32()}
		v.SumType, v.IntMsgInfo = "IntMsgInfo", &x
		e.b("0").b(bit(x.IhrDisabled)).b(bit(x.Bounce)).b(bit(x.Bounced)).add(c04Addr(x.Src)).add(c04Addr(x.Dest)).
			add(c04CC(ccv.grams, ccv.extra)).add(c04Grams(uint64(x.IhrFee))).add(c04Grams(uint64(x.FwdFee))).
			b(vhU64Bits(x.CreatedLt, 64)).b(vhU64Bits(uint64(x.CreatedAt), 32))
	case 1:
		// ext_in_msg_info$10 src:MsgAddressExt dest:MsgAddressInt import_fee:Grams
		fee := vhRandBig(rng, 8*rng.Intn(16))
		x := struct {
			Src       MsgAddress
			Dest      MsgAddress
			ImportFee VarUInteger16
		}{c04RandAddr(rng, "AddrNone AddrExtern"), c04RandAddr(rng, "AddrStd AddrVar"), VarUInteger16(*fee)}
		v.SumType, v.ExtInMsgInfo = "ExtInMsgInfo", &x
		e.b("10").add(c04Addr(x.Src)).add(c04Addr(x.Dest)).add(c04VarUInt(16, fee))
	default:
		// ext_out_msg_info$11 src:MsgAddressInt dest:MsgAddressExt created_lt:uint64 created_at:uint32
		x := struct {
			Src       MsgAddress
			Dest      MsgAddress
			CreatedLt uint64
			CreatedAt uint32
		}{c04RandAddr(rng, "AddrStd AddrVar"), c04RandAddr(rng, "AddrNone AddrExtern"), rng.Uint64(), rng.Uint32()}
		v.SumType, v.ExtOutMsgInfo = "ExtOutMsgInfo", &x
		e.b("11").add(c04Addr(x.Src)).add(c04Addr(x.Dest)).b(vhU64Bits(x.CreatedLt, 64)).b(vhU64Bits(uint64(x.CreatedAt), 32))
	}
	return c04Info{v, e}
}

// _ split_depth:(Maybe (## 5)) special:(Maybe TickTock) code:(Maybe ^Cell) data:(Maybe ^Cell)
// library:(HashmapE 256 SimpleLib) = StateInit;   simple_lib$_ public:Bool root:^Cell = SimpleLib;
func c04RandStateInit(rng *rand.Rand) (StateInit, c04Enc) {
	var s StateInit
	var e c04Enc
	if rng.Intn(2) == 0 {
		d := rng.Intn(32)
		s.SplitDepth = Maybe[Uint5]{Exists: true, Value: Uint5(d)}
		e.b("1").b(vhU64Bits(uint64(d), 5))
	} else {
		e.b("0")
	}
	if rng.Intn(2) == 0 {
		tick, tock := rng.Intn(2) == 0, rng.Intn(2) == 0
		s.Special = Maybe[TickTock]{Exists: true, Value: TickTock{Tick: tick, Tock: tock}}
		e.b("1").b(map[bool]string{true: "1", false: "0"}[tick]).b(map[bool]string{true: "1", false: "0"}[tock])
	} else {
		e.b("0")
	}
	for i := 0; i < 2; i++ {
		if rng.Intn(3) > 0 {
			c := vhRandCell(rng, 2)
			if i == 0 {
				s.Code = Maybe[Ref[boc.Cell]]{Exists: true, Value: Ref[boc.Cell]{Value: *c}}
			} else {
				s.Data = Maybe[Ref[boc.Cell]]{Exists: true, Value: Ref[boc.Cell]{Value: *c}}
			}
			e.b("1")
			e.refs = append(e.refs, c04Ref{cell: c})
		} else {
			e.b("0")
		}
	}
	if rng.Intn(4) == 0 {
		n := 1 + rng.Intn(3)
		d := map[string]c04Enc{}
		type ent struct {
			k Bits256
			l SimpleLib
		}
		var ents []ent
		for i := 0; i < n; i++ {
			var k Bits256
			rng.Read(k[:])
			if i == 1 {
				k = ents[0].k
				k[31] ^= 1 // shares a 255-bit prefix with the first key
			}
			c := vhRandCell(rng, 1)
			pub := rng.Intn(2) == 0
			ents = append(ents, ent{k, SimpleLib{Public: pub, Root: *c}})
			d[vhBytesBits(k[:])] = c04Enc{bits: map[bool]string{true: "1", false: "0"}[pub], refs: []c04Ref{{cell: c}}}
		}
		sort.Slice(ents, func(i, j int) bool { return string(ents[i].k[:]) < string(ents[j].k[:]) })
		for _, x := range ents {
			s.Library.Put(x.k, x.l)
		}
		e.b("1")
		e.refs = append(e.refs, c04Ref{dict: d, n: 256})
	} else {
		e.b("0")
	}
	return s, e
}

// message$_ {X:Type} info:CommonMsgInfo init:(Maybe (Either StateInit ^StateInit)) body:(Either X ^X) = Message X;
func c04RandMessage(rng *rand.Rand) (Message, c04Enc) {
	info := c04RandInfo(rng)
	m := Message{Info: info.v}
	e := info.enc
	switch rng.Intn(3) {
	case 0:
		e.b("0")
	case 1:
		si, se := c04RandStateInit(rng)
		m.Init = Maybe[EitherRef[StateInit]]{Exists: true, Value: EitherRef[StateInit]{IsRight: false, Value: si}}
		e.b("10").add(se)
	default:
		si, se := c04RandStateInit(rng)
		m.Init = Maybe[EitherRef[StateInit]]{Exists: true, Value: EitherRef[StateInit]{IsRight: true, Value: si}}
		e.b("11")
		e.refs = append(e.refs, c04Ref{enc: &se})
	}
	// body: small enough to fit inline in most cases; the expected encoding does not depend on whether it fits
	bodyBits := vhRandBits(rng, []int{0, 1, 32, 64, 100}[rng.Intn(5)])
	var bodyRefs []*boc.Cell
	if rng.Intn(3) == 0 {
		bodyRefs = append(bodyRefs, vhRandCell(rng, 1))
	}
	body, _ := vhCellFromBits(bodyBits, bodyRefs...)
	if rng.Intn(2) == 0 {
		m.Body = EitherRef[Any]{IsRight: false, Value: Any(*body)}
		e.b("0").b(bodyBits)
		for _, r := range bodyRefs {
			e.refs = append(e.refs, c04Ref{cell: r})
		}
	} else {
		m.Body = EitherRef[Any]{IsRight: true, Value: Any(*body)}
		e.b("1")
		e.refs = append(e.refs, c04Ref{cell: body})
	}
	return m, e
}

// ---- constructor tags as written in block.tlb (typed in by hand from the schema, not copied from the struct tags) ----

type c04TagRow struct {
	typ  any
	ctor string // Go member name
	tag  string // block.tlb constructor name and tag
}

var c04Tags = []c04TagRow{
	{CommonMsgInfo{}, "IntMsgInfo", "int_msg_info$0"}, {CommonMsgInfo{}, "ExtInMsgInfo", "ext_in_msg_info$10"}, {CommonMsgInfo{}, "ExtOutMsgInfo", "ext_out_msg_info$11"},
	{MsgAddress{}, "AddrNone", "addr_none$00"}, {MsgAddress{}, "AddrExtern", "addr_extern$01"}, {MsgAddress{}, "AddrStd", "addr_std$10"}, {MsgAddress{}, "AddrVar", "addr_var$11"},
	{InMsg{}, "MsgImportExt", "msg_import_ext$000"}, {InMsg{}, "MsgImportIhr", "msg_import_ihr$010"}, {InMsg{}, "MsgImportImm", "msg_import_imm$011"},
	{InMsg{}, "MsgImportFin", "msg_import_fin$100"}, {InMsg{}, "MsgImportTr", "msg_import_tr$101"}, {InMsg{}, "MsgDiscardFin", "msg_discard_fin$110"},
	{InMsg{}, "MsgDiscardTr", "msg_discard_tr$111"}, {InMsg{}, "MsgImportDeferredFin", "msg_import_deferred_fin$00100"}, {InMsg{}, "MsgImportDeferredTr", "msg_import_deferred_tr$00101"},
	{OutMsg{}, "MsgExportExt", "msg_export_ext$000"}, {OutMsg{}, "MsgExportImm", "msg_export_imm$010"}, {OutMsg{}, "MsgExportNew", "msg_export_new$001"},
	{OutMsg{}, "MsgExportTr", "msg_export_tr$011"}, {OutMsg{}, "MsgExportDeq", "msg_export_deq$1100"}, {OutMsg{}, "MsgExportDeqShort", "msg_export_deq_short$1101"},
	{OutMsg{}, "MsgExportTrReq", "msg_export_tr_req$111"}, {OutMsg{}, "MsgExportDeqImm", "msg_export_deq_imm$100"},
	{OutMsg{}, "MsgExportNewDefer", "msg_export_new_defer$10100"}, {OutMsg{}, "MsgExportDeferredTr", "msg_export_deferred_tr$10101"},
	{MsgEnvelope{}, "V1", "msg_envelope#4"}, {MsgEnvelope{}, "V2", "msg_envelope_v2#5"},
	{IntermediateAddress{}, "IntermediateAddressRegular", "interm_addr_regular$0"}, {IntermediateAddress{}, "IntermediateAddressSimple", "interm_addr_simple$10"},
	{IntermediateAddress{}, "IntermediateAddressExt", "interm_addr_ext$11"},
	{Account{}, "AccountNone", "account_none$0"}, {Account{}, "Account", "account$1"},
	{AccountState{}, "AccountUninit", "account_uninit$00"}, {AccountState{}, "AccountActive", "account_active$1"}, {AccountState{}, "AccountFrozen", "account_frozen$01"},
	{StorageExtraInfo{}, "StorageExtraNone", "storage_extra_none$000"}, {StorageExtraInfo{}, "StorageExtraInfo", "storage_extra_info$001"},
	{TransactionDescr{}, "TransOrd", "trans_ord$0000"}, {TransactionDescr{}, "TransStorage", "trans_storage$0001"}, {TransactionDescr{}, "TransTickTock", "trans_tick_tock$001"},
	{TransactionDescr{}, "TransSplitPrepare", "trans_split_prepare$0100"}, {TransactionDescr{}, "TransSplitInstall", "trans_split_install$0101"},
	{TransactionDescr{}, "TransMergePrepare", "trans_merge_prepare$0110"}, {TransactionDescr{}, "TransMergeInstall", "trans_merge_install$0111"},
	{TrComputePhase{}, "TrPhaseComputeSkipped", "tr_phase_compute_skipped$0"}, {TrComputePhase{}, "TrPhaseComputeVm", "tr_phase_compute_vm$1"},
	{TrBouncePhase{}, "TrPhaseBounceNegfunds", "tr_phase_bounce_negfunds$00"}, {TrBouncePhase{}, "TrPhaseBounceNofunds", "tr_phase_bounce_nofunds$01"},
	{TrBouncePhase{}, "TrPhaseBounceOk", "tr_phase_bounce_ok$1"},
	{FullContent{}, "Onchain", "onchain#00"}, {FullContent{}, "Offchain", "offchain#01"},
	{ContentData{}, "Snake", "snake#00"}, {ContentData{}, "Chunks", "chunks#01"},
	{ShardDesc{}, "Old", "shard_descr#b"}, {ShardDesc{}, "New", "shard_descr_new#a"},
	{VmStackValue{}, "VmStkNull", "vm_stk_null#00"}, {VmStackValue{}, "VmStkTinyInt", "vm_stk_tinyint#01"}, {VmStackValue{}, "VmStkInt", "vm_stk_int$000000100000000"},
	{VmStackValue{}, "VmStkNan", "vm_stk_nan#02ff"}, {VmStackValue{}, "VmStkCell", "vm_stk_cell#03"}, {VmStackValue{}, "VmStkSlice", "vm_stk_slice#04"},
	{VmStackValue{}, "VmStkBuilder", "vm_stk_builder#05"}, {VmStackValue{}, "VmStkCont", "vm_stk_cont#06"}, {VmStackValue{}, "VmStkTuple", "vm_stk_tuple#07"},
	// magics (ctor = name of the Magic field)
	{Transaction{}, "Magic", "transaction$0111"}, {HashUpdate{}, "Magic", "update_hashes#72"}, {MsgMetadata{}, "Magic", "msg_metadata#0"},
	{OutMsgQueueExtra{}, "Magic", "out_msg_queue_extra#0"},
}

// c04TagBits turns "name$0101" / "name#a5" / "name#0201_" into the tag bits.
func c04TagBits(tag string) string {
	if i := strings.IndexByte(tag, '$'); i >= 0 {
		if tag[i+1:] == "_" {
			return ""
		}
		return tag[i+1:]
	}
	i := strings.IndexByte(tag, '#')
	h := tag[i+1:]
	if h == "_" {
		return ""
	}
	trim := strings.HasSuffix(h, "_")
	h = strings.TrimSuffix(h, "_")
	var sb strings.Builder
	for _, c := range h {
		v, _ := new(big.Int).SetString(string(c), 16)
		sb.WriteString(vhUintBits(v, 4))
	}
	s := sb.String()
	if trim { // completion tag: drop the trailing 1 and the zeros after it
		s = strings.TrimRight(s, "0")
		s = s[:len(s)-1]
	}
	return s
}

func TestVerifStandin_C04_BitExact(t *testing.T) {
	rng := vhRng()
	mult := 1
	if vhThorough() {
		mult = 15
	}
	stat := newVhStat("c04_bitexact")

	t.Run("primitives", func(t *testing.T) {
		fails := newVhFailures("rc_fixed_int_bits", "rc_big_int_bits", "rc_varuint_bits", "rc_bits_n", "rc_combinator_bits", "rc_tag_bits")
		g := newC03Gen(rng)
		var zeros []any
		zeros = append(zeros, vhFixedIntZeros...)
		zeros = append(zeros, vhBigIntZeros...)
		zeros = append(zeros, vhVarUintZeros...)
		zeros = append(zeros, vhBitsZeros...)
		zeros = append(zeros, uint8(0), uint16(0), uint32(0), uint64(0), int8(0), int16(0), int32(0), int64(0), false, Unary(0), Grams(0))
		for round := 0; round < mult; round++ {
			g.leafMemo = map[reflect.Type][]reflect.Value{}
			for _, z := range zeros {
				lt := reflect.TypeOf(z)
				fam, _, _ := c03Named(lt)
				cause := map[string]string{"Uint": "rc_fixed_int_bits", "Int": "rc_fixed_int_bits", "VarUInteger": "rc_varuint_bits", "Bits": "rc_bits_n"}[fam]
				if lt.Kind() == reflect.Struct && (fam == "Uint" || fam == "Int") {
					cause = "rc_big_int_bits"
				}
				if cause == "" {
					cause = "rc_fixed_int_bits"
				}
				for _, v := range g.leafValues(lt) {
					exp, ok := c04Leaf(v)
					if !ok {
						t.Fatalf("no oracle for %v", lt)
					}
					stat.add(lt.String() + "|" + vhDump(v.Interface()))
					if d := c04MarshalCompare(v.Interface(), exp); d != "" {
						fails.add(cause, "%s value %s: %s", lt.Name(), vhDump(v.Interface()), d)
					}
				}
			}
		}
		// combinators and tags over a few inner values
		type tagged struct {
			M  Magic `tlb:"x#a5f"`
			A  Uint3
			P  *Uint8  `tlb:"maybe"`
			Q  *Uint16 `tlb:"maybe^"`
			R  Int7    `tlb:"^"`
			N  Magic   `tlb:"y$01101"`
			My Maybe[Uint4]
			E  Either[Uint5, Ref[Uint9]]
			ER EitherRef[Int6]
			Rf Ref[Maybe[Uint2]]
		}
		type union struct {
			SumType
			A struct{ X Uint4 }  `tlbSumType:"a$0"`
			B struct{ X Int5 }   `tlbSumType:"b$10"`
			C *struct{ X Uint8 } `tlbSumType:"c$110"`
			D struct{}           `tlbSumType:"d#f"`
			E struct{ X bool }   `tlbSumType:"e#e5a"`
		}
		for i := 0; i < 200*mult; i++ {
			v := tagged{M: 0xa5f, N: 0b01101, A: Uint3(rng.Intn(8)), R: Int7(rng.Intn(128) - 64)}
			var e c04Enc
			e.b(vhU64Bits(0xa5f, 12)).b(vhU64Bits(uint64(v.A), 3))
			if rng.Intn(2) == 0 {
				x := Uint8(rng.Intn(256))
				v.P = &x
				e.b("1").b(vhU64Bits(uint64(x), 8))
			} else {
				e.b("0")
			}
			if rng.Intn(2) == 0 {
				x := Uint16(rng.Intn(65536))
				v.Q = &x
				e.b("1")
				e.refs = append(e.refs, c04Ref{enc: &c04Enc{bits: vhU64Bits(uint64(x), 16)}})
			} else {
				e.b("0")
			}
			e.refs = append(e.refs, c04Ref{enc: &c04Enc{bits: vhI64Bits(int64(v.R), 7)}})
			e.b("01101")
			if rng.Intn(2) == 0 {
				v.My = Maybe[Uint4]{Exists: true, Value: Uint4(rng.Intn(16))}
				e.b("1").b(vhU64Bits(uint64(v.My.Value), 4))
			} else {
				e.b("0")
			}
			if rng.Intn(2) == 0 {
				v.E.IsRight, v.E.Right.Value = true, Uint9(rng.Intn(512))
				e.b("1")
				e.refs = append(e.refs, c04Ref{enc: &c04Enc{bits: vhU64Bits(uint64(v.E.Right.Value), 9)}})
			} else {
				v.E.Left = Uint5(rng.Intn(32))
				e.b("0").b(vhU64Bits(uint64(v.E.Left), 5))
			}
			v.ER.Value = Int6(rng.Intn(64) - 32)
			if rng.Intn(2) == 0 {
				v.ER.IsRight = true
				e.b("1")
				e.refs = append(e.refs, c04Ref{enc: &c04Enc{bits: vhI64Bits(int64(v.ER.Value), 6)}})
			} else {
				e.b("0").b(vhI64Bits(int64(v.ER.Value), 6))
			}
			if rng.Intn(2) == 0 {
				v.Rf.Value = Maybe[Uint2]{Exists: true, Value: Uint2(rng.Intn(4))}
				e.refs = append(e.refs, c04Ref{enc: &c04Enc{bits: "1" + vhU64Bits(uint64(v.Rf.Value.Value), 2)}})
			} else {
				e.refs = append(e.refs, c04Ref{enc: &c04Enc{bits: "0"}})
			}
			stat.add("tagged|" + vhDump(v))
			// the expected ref order follows field order: Q?, R, E.Right?, ER?, Rf
			if d := c04MarshalCompare(v, e); d != "" {
				fails.add("rc_combinator_bits", "value %s: %s", vhDump(v), d)
			}
			var u union
			var ue c04Enc
			switch rng.Intn(5) {
			case 0:
				u.SumType, u.A.X = "A", Uint4(rng.Intn(16))
				ue.b("0").b(vhU64Bits(uint64(u.A.X), 4))
			case 1:
				u.SumType, u.B.X = "B", Int5(rng.Intn(32)-16)
				ue.b("10").b(vhI64Bits(int64(u.B.X), 5))
			case 2:
				u.SumType, u.C = "C", &struct{ X Uint8 }{Uint8(rng.Intn(256))}
				ue.b("110").b(vhU64Bits(uint64(u.C.X), 8))
			case 3:
				u.SumType = "D"
				ue.b("1111")
			default:
				u.SumType, u.E.X = "E", rng.Intn(2) == 0
				ue.b("111001011010").b(map[bool]string{true: "1", false: "0"}[u.E.X])
			}
			stat.add("union|" + vhDump(u))
			if d := c04MarshalCompare(u, ue); d != "" {
				fails.add("rc_tag_bits", "value %s: %s", vhDump(u), d)
			}
		}
		fails.report(t)
	})

	t.Run("tags", func(t *testing.T) {
		fails := newVhFailures("rc_struct_tag_differs_from_block_tlb", "rc_emitted_tag_bits", "rc_enum_bits")
		g := newC03Gen(rng)
		g.maxDepth = 3
		for _, row := range c04Tags {
			rt := reflect.TypeOf(row.typ)
			f, ok := rt.FieldByName(row.ctor)
			if !ok {
				fails.add("rc_struct_tag_differs_from_block_tlb", "%s has no member %s", rt.Name(), row.ctor)
				continue
			}
			isMagic := f.Type == c03MagicType
			got := f.Tag.Get("tlbSumType")
			if isMagic {
				got = f.Tag.Get("tlb")
			}
			stat.add("tag|" + rt.Name() + "." + row.ctor)
			want := c04TagBits(row.tag)
			if got == "" || c04TagBits(got) != want {
				fails.add("rc_struct_tag_differs_from_block_tlb", "%s.%s: struct tag %q, block.tlb says %q", rt.Name(), row.ctor, got, row.tag)
			}
			// emitted bits (when some value of the constructor is encodable)
			encoded := false
			var lastErr string
			for try := 0; try < 12 && !encoded; try++ {
				v := reflect.New(rt).Elem()
				if isMagic {
					g.fill(v, "", 0)
				} else {
					v.FieldByName("SumType").SetString(row.ctor)
					g.fill(v.FieldByName(row.ctor), "", 1)
				}
				c := boc.NewCell()
				var err error
				if p := vhSafe(func() { err = Marshal(c, v.Interface()) }); p != "" {
					lastErr = "panic: " + p
					continue
				}
				if err != nil {
					lastErr = err.Error()
					continue
				}
				encoded = true
				stat.add("tagbits|" + rt.Name() + "." + row.ctor + vhDump(v.Interface()))
				if bits := vhCellBits(c); !strings.HasPrefix(bits, want) {
					fails.add("rc_emitted_tag_bits", "%s.%s: cell starts with %.16s, block.tlb tag %s", rt.Name(), row.ctor, bits, row.tag)
				}
			}
			if !encoded {
				t.Logf("%s.%s: no encodable value (emitted bits not checked): %s", rt.Name(), row.ctor, lastErr)
			}
		}
		// acc_state_uninit$00 acc_state_frozen$01 acc_state_active$10 acc_state_nonexist$11
		// acst_unchanged$0 acst_frozen$10 acst_deleted$11
		// cskip_no_state$00 cskip_bad_state$01 cskip_no_gas$10 cskip_suspended$110
		enums := []struct {
			v    any
			bits string
		}{{AccountUninit, "00"}, {AccountFrozen, "01"}, {AccountActive, "10"}, {AccountNone, "11"},
			{AccStatusChangeUnchanged, "0"}, {AccStatusChangeFrozen, "10"}, {AccStatusChangeDeleted, "11"},
			{ComputeSkipReasonNoState, "00"}, {ComputeSkipReasonBadState, "01"}, {ComputeSkipReasonNoGas, "10"}, {ComputeSkipSuspended, "110"}}
		for _, e := range enums {
			stat.add(fmt.Sprintf("enum|%v", e.v))
			if d := c04MarshalCompare(e.v, c04Enc{bits: e.bits}); d != "" {
				fails.add("rc_enum_bits", "%T %v: %s", e.v, e.v, d)
			}
		}
		fails.report(t)
	})

	t.Run("core", func(t *testing.T) {
		fails := newVhFailures("rc_msgaddress_bits", "rc_grams_bits", "rc_currencycollection_bits", "rc_commonmsginfo_bits", "rc_stateinit_bits", "rc_message_bits")
		n := 300 * mult
		for i := 0; i < n; i++ {
			for _, a := range c03MkMsgAddresses(rng)[:] {
				if i%10 != 0 {
					break
				}
				stat.add("addr|" + vhDump(a))
				if d := c04MarshalCompare(a, c04Addr(a)); d != "" {
					fails.add("rc_msgaddress_bits", "%s: %s", vhDump(a), d)
				}
			}
			gr := c04RandGrams(rng)
			stat.add(fmt.Sprintf("grams|%d", gr))
			if d := c04MarshalCompare(Grams(gr), c04Grams(gr)); d != "" {
				fails.add("rc_grams_bits", "%d: %s", gr, d)
			}
			cc, ccv := c04RandCC(rng)
			stat.add("cc|" + vhDump(cc))
			if d := c04MarshalCompare(cc, c04CC(ccv.grams, ccv.extra)); d != "" {
				fails.add("rc_currencycollection_bits", "%s: %s", vhDump(cc), d)
			}
			info := c04RandInfo(rng)
			stat.add("info|" + vhDump(info.v))
			if d := c04MarshalCompare(info.v, info.enc); d != "" {
				fails.add("rc_commonmsginfo_bits", "%s: %s", vhDump(info.v), d)
			}
			si, se := c04RandStateInit(rng)
			stat.add("stateinit|" + vhDump(si))
			if d := c04MarshalCompare(si, se); d != "" {
				fails.add("rc_stateinit_bits", "%s: %s", vhDump(si), d)
			}
			m, me := c04RandMessage(rng)
			stat.add("message|" + vhDump(m))
			if d := c04MarshalCompare(m, me); d != "" {
				fails.add("rc_message_bits", "%s: %s", vhDump(m), d)
			}
		}
		fails.report(t)
	})
	stat.print()
}

// ---- real chain data ----

// c04ExplainedByLabels: src and re are equal trees except for the label form of dictionary edges (same label, same
// remainder, different hml_* kind), with remaining key length at most maxKey. srcCanonical reports whether every such
// edge of the SOURCE uses the shortest (reference implementation) form, i.e. the deviation is the re-encoder's.
var c04Hasher = boc.NewHasher() // cells compared here are never modified afterwards

func c04ExplainedByLabels(src, re *boc.Cell, maxKey int) (explained, srcCanonical bool) {
	if src.CellType() != re.CellType() {
		return false, false
	}
	if h1, err1 := c04Hasher.HashString(src); err1 == nil {
		if h2, err2 := c04Hasher.HashString(re); err2 == nil && h1 == h2 {
			return true, true
		}
	}
	sr, rr := src.Refs(), re.Refs()
	if len(sr) != len(rr) {
		return false, false
	}
	srcCanonical = true
	sb, rb := vhCellBits(src), vhCellBits(re)
	if sb != rb {
		if src.CellType() != boc.OrdinaryCell {
			return false, false
		}
		ok, canon := false, false
		for m := 0; m <= maxKey; m++ {
			k1, l1, rest1, e1 := vhParseLabel(sb, m)
			k2, l2, rest2, e2 := vhParseLabel(rb, m)
			if e1 == nil && e2 == nil && k1 != k2 && l1 == l2 && rest1 == rest2 {
				// a leaf (label completes the key) or a fork (exactly two refs, no payload)
				if len(l1) == m || (len(sr) == 2 && rest1 == "") {
					ok = true
					if k1 == vhCanonicalKind(l1, m) {
						canon = true // conservative: canonical under some admissible key length
					}
				}
			}
		}
		if !ok {
			return false, false
		}
		srcCanonical = canon
	}
	for i := range sr {
		e, c := c04ExplainedByLabels(sr[i], rr[i], maxKey)
		if !e {
			return false, false
		}
		srcCanonical = srcCanonical && c
	}
	return true, srcCanonical
}

// c04FirstDiff returns the bits of the first pair of cells (pre-order) whose own bits / ref counts differ.
func c04FirstDiff(a, b *boc.Cell, path string) string {
	ab, bb := vhCellBits(a), vhCellBits(b)
	ar, br := a.Refs(), b.Refs()
	if ab != bb || len(ar) != len(br) || a.CellType() != b.CellType() {
		return fmt.Sprintf("first differing cell at %s: source %s (%d bits, %d refs), re-encoded %s (%d bits, %d refs)", path, vhBin2Hex(ab), len(ab), len(ar), vhBin2Hex(bb), len(bb), len(br))
	}
	for i := range ar {
		if d := c04FirstDiff(ar[i], br[i], fmt.Sprintf("%s.%d", path, i)); d != "" {
			return d
		}
	}
	return ""
}

var c04TxType = reflect.TypeOf(Transaction{})

// c04ContainsTx: does a value of type t (reachable through plain reflection structs / pointers) embed a Transaction?
func c04ContainsTx(t reflect.Type, seen map[reflect.Type]bool) bool {
	if t == c04TxType {
		return true
	}
	if seen[t] {
		return false
	}
	seen[t] = true
	switch t.Kind() {
	case reflect.Pointer:
		return c04ContainsTx(t.Elem(), seen)
	case reflect.Struct:
		if _, ok := reflect.New(t).Interface().(MarshalerTLB); ok {
			return false // encoded by its own method: cannot be shadowed
		}
		for i := 0; i < t.NumField(); i++ {
			if c04ContainsTx(t.Field(i).Type, seen) {
				return true
			}
		}
	}
	return false
}

// c04ShadowType maps a type to one in which Transaction is replaced by a struct with the same exported fields and
// tags but without the unexported cache fields (on which the reflective encoder of the unchanged library panics).
var c04ShadowMemo = map[reflect.Type]reflect.Type{}

func c04ShadowType(t reflect.Type) reflect.Type {
	if st, ok := c04ShadowMemo[t]; ok {
		return st
	}
	st := c04ShadowTypeUncached(t)
	c04ShadowMemo[t] = st
	return st
}

func c04ShadowTypeUncached(t reflect.Type) reflect.Type {
	if t != c04TxType && !c04ContainsTx(t, map[reflect.Type]bool{}) {
		return t
	}
	switch t.Kind() {
	case reflect.Pointer:
		return reflect.PointerTo(c04ShadowType(t.Elem()))
	case reflect.Struct:
		var fs []reflect.StructField
		for i := 0; i < t.NumField(); i++ {
			f := t.Field(i)
			if !f.IsExported() {
				continue
			}
			fs = append(fs, reflect.StructField{Name: f.Name, Type: c04ShadowType(f.Type), Tag: f.Tag, Anonymous: f.Anonymous})
		}
		return reflect.StructOf(fs)
	}
	return t
}

func c04ShadowValue(v reflect.Value) reflect.Value {
	st := c04ShadowType(v.Type())
	if st == v.Type() {
		return v
	}
	out := reflect.New(st).Elem()
	switch v.Kind() {
	case reflect.Pointer:
		if !v.IsNil() {
			out.Set(c04ShadowValue(v.Elem()).Addr())
		}
	case reflect.Struct:
		for i := 0; i < st.NumField(); i++ {
			src := v.FieldByName(st.Field(i).Name)
			sv := c04ShadowValue(src)
			if !sv.CanAddr() {
				tmp := reflect.New(sv.Type()).Elem()
				tmp.Set(sv)
				sv = tmp
			}
			out.Field(i).Set(sv)
		}
	}
	// make the result addressable for callers taking Addr()
	return out
}

type c04Real struct {
	t      *testing.T
	stat   *vhStat
	fails  *vhFailures
	counts map[string]int
	maxKey int
}

// check re-encodes v (decoded from src) and compares hashes. kind names the record kind in the counters.
func (r *c04Real) check(kind string, v any, src *boc.Cell, srcHash string, where string) (panicked bool) {
	r.stat.add(kind + "|" + srcHash)
	r.counts[kind+".total"]++
	c := boc.NewCell()
	var err error
	if p := vhSafe(func() { err = Marshal(c, v) }); p != "" {
		r.counts[kind+".panic"]++
		cause := "rc_unclassified_panic/" + kind
		if strings.Contains(p, "unexported field") {
			cause = "rc_marshal_panics_on_unexported_struct_field"
		}
		r.fails.add(cause, "%s %s (source hash %s): Marshal panics: %s", kind, where, srcHash, p)
		return true
	}
	if err != nil {
		r.counts[kind+".error"]++
		r.fails.add("rc_reencode_error/"+kind, "%s %s (source hash %s): Marshal error: %v", kind, where, srcHash, err)
		return false
	}
	h := vhHash(c)
	if h == srcHash {
		r.counts[kind+".equal"]++
		return false
	}
	if src != nil {
		if explained, srcCanonical := c04ExplainedByLabels(src, c, r.maxKey); explained {
			// The two trees are identical except for the hml_* form of dictionary labels (same label, same remainder).
			// Tolerated only if, in addition, the re-encoded tree decodes to the same value as the source did.
			fresh := reflect.New(reflect.TypeOf(v))
			var derr error
			c.ResetCounters()
			if p := vhSafe(func() { derr = Unmarshal(c, fresh.Interface()) }); p != "" || derr != nil {
				r.counts[kind+".differs_label_form_only_but_reencoding_not_decodable"]++
				r.fails.add("rc_reencoded_tree_not_decodable/"+kind, "%s %s (source hash %s): the re-encoded tree differs from the source only in label form but does not decode: %v %v", kind, where, srcHash, p, derr)
				return false
			}
			if d := vhDiff(v, fresh.Elem().Interface()); d != "" {
				r.counts[kind+".differs_label_form_only_but_decodes_to_another_value"]++
				r.fails.add("rc_reencoded_tree_decodes_to_another_value/"+kind, "%s %s (source hash %s): %s", kind, where, srcHash, d)
				return false
			}
			if srcCanonical {
				// informational: the chain uses the shortest label form, the library another valid one
				r.counts[kind+".differs_label_form_only(tolerated,library_form_not_shortest)"]++
			} else {
				r.counts[kind+".differs_label_form_only(tolerated,source_form_not_shortest)"]++
			}
			return false
		}
	}
	r.counts[kind+".differs_unexplained"]++
	d := "<source cell not available>"
	if src != nil && r.fails.wants("rc_reencoded_hash_differs/"+kind) {
		d = c04FirstDiff(src, c, "root")
	}
	r.fails.add("rc_reencoded_hash_differs/"+kind, "%s %s: source hash %s, re-encoded hash %s\n      %s", kind, where, srcHash, h, d)
	return false
}

func c04HasExotic(c *boc.Cell, depth int) bool {
	if c.CellType() != boc.OrdinaryCell || depth > 1000 {
		return true
	}
	for _, r := range c.Refs() {
		if c04HasExotic(r, depth+1) {
			return true
		}
	}
	return false
}

type c04RawShardAccount struct {
	Account       boc.Cell `tlb:"^"`
	LastTransHash Bits256
	LastTransLt   uint64
}

type c04RawShardState struct {
	Magic           Magic `tlb:"shard_state#9023afe2"`
	GlobalID        int32
	ShardID         ShardIdent
	SeqNo           uint32
	VertSeqNo       uint32
	GenUtime        uint32
	GenLt           uint64
	MinRefMcSeqno   uint32
	OutMsgQueueInfo boc.Cell `tlb:"^"`
	BeforeSplit     bool
	Accounts        HashmapAugE[Bits256, c04RawShardAccount, DepthBalanceInfo] `tlb:"^"`
}

func TestVerifStandin_C04_RealData(t *testing.T) {
	r := &c04Real{t: t, stat: newVhStat("c04_realdata"), counts: map[string]int{}, maxKey: 256,
		fails: newVhFailures("rc_marshal_panics_on_unexported_struct_field")}
	defer debug.SetGCPercent(debug.SetGCPercent(400))
	// quick tier: all transactions, messages and accounts, but only ~100 evenly spaced InMsg / OutMsg records per block
	// (each of them embeds a transaction that is checked anyway); thorough: every record
	stride := func(n int) int {
		if vhThorough() || n <= 100 {
			return 1
		}
		return (n + 99) / 100
	}
	files, _ := filepath.Glob("testdata/block-*/block.bin")
	sort.Strings(files)
	if len(files) == 0 {
		t.Fatalf("no blocks under testdata")
	}
	for _, file := range files {
		data, err := os.ReadFile(file)
		if err != nil {
			t.Fatal(err)
		}
		roots, err := boc.DeserializeBoc(data)
		if err != nil || len(roots) != 1 {
			t.Fatalf("%s: %v", file, err)
		}
		// index of the ordinary cells of the block by hash (source cells of messages)
		hasher := boc.NewHasher()
		byHash := map[string]*boc.Cell{}
		var index func(c *boc.Cell)
		seen := map[*boc.Cell]bool{}
		index = func(c *boc.Cell) {
			if seen[c] {
				return
			}
			seen[c] = true
			if h, err := hasher.HashString(c); err == nil {
				byHash[h] = c
			}
			for _, x := range c.Refs() {
				index(x)
			}
		}
		index(roots[0])

		var block Block
		if err := Unmarshal(roots[0], &block); err != nil {
			t.Fatalf("%s: Unmarshal(Block): %v", file, err)
		}
		checkMsg := func(m *Message, where string) {
			h := fmt.Sprintf("%x", m.Hash(false))
			src := byHash[h]
			if src != nil && c04HasExotic(src, 0) {
				r.counts["message.skipped_pruned"]++
				return
			}
			r.check("message", *m, src, h, where)
		}
		for _, ab := range block.Extra.AccountBlocks.Values() {
			for _, txr := range ab.Transactions.Values() {
				tx := txr.Value
				h := fmt.Sprintf("%x", tx.Hash())
				where := fmt.Sprintf("%s account %x lt %d", file, tx.AccountAddr[:4], tx.Lt)
				src := byHash[h]
				if src != nil && c04HasExotic(src, 0) {
					r.counts["transaction.skipped_pruned"]++
					continue
				}
				// through the public API
				if r.check("transaction", tx, src, h, where) {
					// the public API panicked: still check the field layout through a copy without the unexported cache fields
					r.check("transaction_fields", c04ShadowValue(vhAddressable(tx)).Interface(), src, h, where)
				}
				if tx.Msgs.InMsg.Exists {
					checkMsg(&tx.Msgs.InMsg.Value.Value, where+" in_msg")
				}
				for i := range tx.Msgs.OutMsgs.Values() {
					checkMsg(&tx.Msgs.OutMsgs.Values()[i].Value, fmt.Sprintf("%s out_msg %d", where, i))
				}
			}
		}
		// InMsgDescr / OutMsgDescr leaves: (HashmapAugE 256 InMsg ImportFees), (HashmapAugE 256 OutMsg CurrencyCollection)
		var inDescr HashmapAugE[Bits256, Any, ImportFees]
		inCell := block.Extra.InMsgDescrCell
		inCell.ResetCounters()
		if err := Unmarshal(&inCell, &inDescr); err != nil {
			r.fails.add("rc_descr_decode", "%s: InMsgDescr: %v", file, err)
		}
		for i, raw := range inDescr.Values() {
			if i%stride(len(inDescr.Values())) != 0 {
				continue
			}
			src := boc.Cell(raw)
			if c04HasExotic(&src, 0) {
				r.counts["in_msg.skipped_pruned"]++
				continue
			}
			where := fmt.Sprintf("%s InMsgDescr[%x]", file, inDescr.Keys()[i][:4])
			var v InMsg
			cp := src
			if err := Unmarshal(&cp, &v); err != nil {
				r.fails.add("rc_descr_decode", "%s: %v", where, err)
				continue
			}
			if r.check("in_msg", v, &src, vhHash(&src), where) {
				r.check("in_msg_fields", c04ShadowValue(vhAddressable(v)).Interface(), &src, vhHash(&src), where)
			}
		}
		var outDescr HashmapAugE[Bits256, Any, CurrencyCollection]
		outCell := block.Extra.OutMsgDescrCell
		outCell.ResetCounters()
		if err := Unmarshal(&outCell, &outDescr); err != nil {
			r.fails.add("rc_descr_decode", "%s: OutMsgDescr: %v", file, err)
		}
		for i, raw := range outDescr.Values() {
			if i%stride(len(outDescr.Values())) != 0 {
				continue
			}
			src := boc.Cell(raw)
			if c04HasExotic(&src, 0) {
				r.counts["out_msg.skipped_pruned"]++
				continue
			}
			where := fmt.Sprintf("%s OutMsgDescr[%x]", file, outDescr.Keys()[i][:4])
			var v OutMsg
			cp := src
			if err := Unmarshal(&cp, &v); err != nil {
				r.fails.add("rc_descr_decode", "%s: %v", where, err)
				continue
			}
			if r.check("out_msg", v, &src, vhHash(&src), where) {
				r.check("out_msg_fields", c04ShadowValue(vhAddressable(v)).Interface(), &src, vhHash(&src), where)
			}
		}
		// accounts of the state update (only those fully present, i.e. without pruned branches)
		var upd MerkleUpdate[c04RawShardState]
		updCell := roots[0].Refs()[2]
		updCell.ResetCounters()
		if err := Unmarshal(updCell, &upd); err != nil {
			t.Logf("%s: state update not decodable as unsplit state (accounts skipped): %v", file, err)
		} else {
			for side, st := range []c04RawShardState{upd.FromRoot, upd.ToRoot} {
				for i, raw := range st.Accounts.Values() {
					src := raw.Account
					src.ResetCounters()
					if src.BitSize() == 0 && src.RefsSize() == 0 {
						r.counts["account.skipped_pruned"]++
						continue
					}
					if c04HasExotic(&src, 0) {
						r.counts["account.skipped_partly_pruned"]++
						continue
					}
					where := fmt.Sprintf("%s state side %d account %x", file, side, st.Accounts.Keys()[i][:4])
					var v Account
					cp := src
					if err := Unmarshal(&cp, &v); err != nil {
						r.fails.add("rc_account_decode", "%s: %v", where, err)
						continue
					}
					r.check("account", v, &src, vhHash(&src), where)
				}
			}
		}
	}
	var keys []string
	for k := range r.counts {
		keys = append(keys, k)
	}
	sort.Strings(keys)
	for _, k := range keys {
		fmt.Printf("C04-REALDATA %s=%d\n", k, r.counts[k])
	}
	r.fails.report(t)
	r.stat.print()
}
