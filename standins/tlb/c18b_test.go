//go:build verif

package tlb

// Bounded stand-in for C18, gap "cell trees with REPEATED CONTENT" (labelled bounded, never counted as proved).
// Two distinct cells with equal content have the same representation hash, and one cell can be referenced twice; a
// prover has to tell the cell on the proven path from its content-identical twin that is to be pruned.
//
// Oracles (from the specification of Merkle proofs / exotic cells and of the Hashmap TL-B schema, not from the library):
// c18Hasher (independent level-aware representation hash, refhash_helper_test.go), c18Walk / c18Label (independent
// interpreter of `Hashmap n X`), key and value bits written out by hand (big-endian integers / raw bytes).
// Per proof:
//   * the bytes parse (boc.DeserializeBoc) into one root, a Merkle-proof cell with data 03 | hash | depth of the ORIGINAL root;
//   * the level-0 hash / depth of the virtual root (the only child), computed by the reference hasher, is that hash / depth;
//   * walking original and proof in parallel by POSITION (sequence of reference indices): every cell of the proof is either
//     equal to the original one (type, bits, number of references) or a pruned branch 01 | 01 | hash | depth of the sub-tree
//     it replaces; a position that was asked to be pruned is pruned; a position that was NOT asked to be pruned (and is not
//     below a pruned one) is present -- in particular every cell on the path to the proven key, even when a sibling that
//     is pruned has exactly the same content;
//   * level masks: Level() of every cell = specification; every ancestor of a pruned branch below the Merkle cell has
//     level >= 1, cells without pruned descendants level 0, the Merkle root level 0;
//   * dictionaries: the value is read back from the proof alone (independent walk; the library's decoder too) and equals the
//     value of the mapping; an absent key yields an error and no proof; proving does not change the dictionary.
//   Cursor API only: when ONE *boc.Cell is referenced from several positions it is one node of the DAG, so pruning it at
//   one position may (and, in this library, does) prune it at its other positions; this is accepted there. A DISTINCT
//   cell with equal content must stay. For dictionaries the contract is strict (the value must be readable).
//
// Bound, quick tier (thorough in brackets):
//   TestVerifStandin_C18_RepeatedDicts
//     A. Hashmap / HashmapE (alternating) with Uint8 keys -> Uint32: the two named regressions {01:7,81:7} and
//        {12:7,13:9,92:7,93:9}, 8 further hand-made sets, and the dense sets {0..2^k-1} and {i<<(8-k)} for k = 1..6 [1..8]
//        with values constant and i mod 2, 4, 8;
//     B. product key sets H x L (H: 7 [9] sets of the leading nibble, L: 6 [9] sets of the last byte; value a function of the last
//        byte only / constant / its parity, so that the halves below a fork on H are content-identical) for key widths
//        12 (Uint12), 16, 32 and 256 (Bits256) bits; 16-bit keys also with values that own a child cell;
//     C. 300 [30000] random dictionaries, 8 / 16-bit clustered keys, 2..12 [2..24] keys, values from an alphabet of 2;
//     every present key is proven (fresh and shared prover alternate), up to 6 absent keys per dictionary are refused.
//   TestVerifStandin_C18_RepeatedCursor
//     10 hand-made trees (one *Cell referenced 2..4 times; distinct cells with equal content as siblings, as cousins, at
//     different depths, in a chain of twins; combinations) x every single position, every pair [triple, quadruple] of
//     positions of the expanded tree asked to be pruned through MerkleProver.Cursor / Ref / Prune / CreateProof.
//   TestVerifStandin_C18_RepeatedRandom
//     400 [60000] random trees, height <= 4 [5], fan-out 0..4, cell data from an alphabet of 1..3 strings, 15% of the
//     references re-use an earlier cell (same pointer), at most 300 [600] positions; per tree: a "path proof" (siblings of a
//     random root-to-leaf walk), one single position, one random set of 2..4 positions and, when the tree has two distinct
//     cells with equal content, one of the two alone.
//   TestVerifStandin_C18_SharedParsedDict  (NOT matched by the run regexp TestVerifStandin_C18_Repeated: it documents a
//     finding on the unchanged tree) the dictionaries of A/B re-read from their own serialisation, where equal sub-trees
//     become ONE cell referenced twice; same strict oracle.
// Every random choice comes from rand.New(rand.NewSource(VERIF_SEED)).

import (
	"bytes"
	"crypto/sha256"
	"fmt"
	"math/bits"
	"math/rand"
	"reflect"
	"sort"
	"strings"
	"testing"

	"github.com/tonkeeper/tongo/boc"
)

type c18bEnv struct {
	fails     *vhFailures
	stat      *vhStat
	twinCases int // cases in which a content-identical twin of a pruned cell had to survive
	sameNode  int // positions accepted as pruned because they hold the very cell that was asked to be pruned elsewhere
	// cause used when a cell that nobody asked to prune is missing from the proof
	unaskedCause string
}

func newC18bEnv(name string, known ...string) *c18bEnv {
	return &c18bEnv{fails: newVhFailures(known...), stat: newVhStat(name), unaskedCause: "rc_unasked_cell_pruned"}
}

// count records one executed case; the description is reduced to a 128-bit digest to keep the set of distinct cases small.
func (e *c18bEnv) count(desc string) {
	d := sha256.Sum256([]byte(desc))
	e.stat.add(string(d[:16]))
}

func (e *c18bEnv) finish(t *testing.T, needTwins bool) {
	if needTwins && e.twinCases == 0 {
		e.fails.add("rc_harness_no_twin_case", "no executed case had a content-identical twin of a pruned cell on a kept position: the stand-in does not test what it claims")
	}
	if e.stat.cases == 0 {
		e.fails.add("rc_harness_no_case", "zero cases executed")
	}
	e.fails.report(t)
	t.Logf("cases %d, with a surviving content-identical twin %d, same-node positions accepted as pruned %d", e.stat.cases, e.twinCases, e.sameNode)
	e.stat.print()
}

func c18bPos(p []int) string {
	if len(p) == 0 {
		return "root"
	}
	s := make([]string, len(p))
	for i, k := range p {
		s[i] = fmt.Sprint(k)
	}
	return strings.Join(s, "/")
}

func c18bPosList(ps [][]int) string {
	s := make([]string, len(ps))
	for i, p := range ps {
		s[i] = c18bPos(p)
	}
	return "[" + strings.Join(s, " ") + "]"
}

func c18bCellAt(root *boc.Cell, p []int) *boc.Cell {
	c := root
	for _, k := range p {
		if k >= len(c.Refs()) {
			return nil
		}
		c = c.Refs()[k]
	}
	return c
}

func c18bPrunedData(v c18HD) []byte {
	w := append([]byte{1, 1}, v.hash[:]...)
	return append(w, byte(v.depth>>8), byte(v.depth))
}

// checkProof checks proof against the original tree orig and the positions asked to be pruned. sameNodeOK: a position
// holding the very *boc.Cell that was asked to be pruned at another position may be pruned as well (cursor API).
// It returns the virtual root (nil when the proof is unusable).
func (e *c18bEnv) checkProof(what string, proof []byte, orig *boc.Cell, refH *c18Hasher, asked [][]int, sameNodeOK bool) *boc.Cell {
	ov, err := refH.hashDepth(orig, 0)
	if err != nil {
		e.fails.add("rc_harness", "%s: reference cannot hash the original: %v", what, err)
		return nil
	}
	roots, err := boc.DeserializeBoc(proof)
	if err != nil || len(roots) != 1 {
		e.fails.add("rc_proof_does_not_parse", "%s: proof %x does not parse into one root: %d roots, %v", what, proof, len(roots), err)
		return nil
	}
	root := roots[0]
	if root.CellType() != boc.MerkleProofCell || len(root.Refs()) != 1 {
		e.fails.add("rc_proof_root_is_not_a_merkle_proof_cell", "%s: proof root has type %d and %d refs; proof %x", what, root.CellType(), len(root.Refs()), proof)
		return nil
	}
	data, nb := c18Data(root)
	want := append([]byte{3}, ov.hash[:]...)
	want = append(want, byte(ov.depth>>8), byte(ov.depth))
	if nb != 280 || !bytes.Equal(data, want) {
		e.fails.add("rc_proof_root_commits_to_wrong_hash_or_depth", "%s: proof root data %x (%d bits), the original root needs %x; proof %x", what, data, nb, want, proof)
	}
	body := root.Refs()[0]
	ph := newC18Hasher()
	if bv, err := ph.hashDepth(body, 0); err != nil || bv != ov {
		e.fails.add("rc_virtual_root_hash_differs_from_original", "%s: level-0 hash/depth of the virtual root %x/%d (%v), original root %x/%d; proof %x", what, bv.hash, bv.depth, err, ov.hash, ov.depth, proof)
	}
	// level masks
	hasPruned := map[*boc.Cell]bool{}
	var lv func(c *boc.Cell) bool
	seen := map[*boc.Cell]bool{}
	lv = func(c *boc.Cell) bool {
		if seen[c] {
			return hasPruned[c]
		}
		seen[c] = true
		m, err := ph.mask(c)
		if err != nil {
			e.fails.add("rc_malformed_cell_in_proof", "%s: %v; proof %x", what, err, proof)
			return false
		}
		if c.Level() != bits.Len(uint(m)) {
			e.fails.add("rc_level_mask_inconsistent", "%s: cell %.200s has Level() %d, specification %d; proof %x", what, c18Dump(c), c.Level(), bits.Len(uint(m)), proof)
		}
		hp := c.CellType() == boc.PrunedBranchCell
		for _, r := range c.Refs() {
			if lv(r) {
				hp = true
			}
		}
		hasPruned[c] = hp
		if c != root {
			if hp && c.Level() < 1 {
				e.fails.add("rc_level_mask_inconsistent", "%s: cell %.200s has a pruned branch below it but level %d; proof %x", what, c18Dump(c), c.Level(), proof)
			}
			if !hp && c.Level() != 0 {
				e.fails.add("rc_level_mask_inconsistent", "%s: cell %.200s has no pruned branch below it but level %d; proof %x", what, c18Dump(c), c.Level(), proof)
			}
		}
		return hp
	}
	lv(root)
	if m, err := ph.mask(root); err != nil || m != 0 || root.Level() != 0 {
		e.fails.add("rc_level_mask_inconsistent", "%s: the Merkle-proof root has level mask %d / Level() %d (%v), want 0; proof %x", what, m, root.Level(), err, proof)
	}
	if tv, err := ph.hashDepth(root, 3); err == nil {
		if lh, err := root.Hash(); err != nil || !bytes.Equal(lh, tv.hash[:]) {
			e.fails.add("rc_library_hash_of_proof_differs_from_reference", "%s: library hash of the proof root %x (%v), reference %x; proof %x", what, lh, err, tv.hash, proof)
		}
	}
	// what was asked
	must := map[string]bool{}
	mayCell := map[*boc.Cell]bool{}
	askedCell := map[*boc.Cell]bool{}
	askedHash := map[[32]byte]bool{}
	for _, p := range asked {
		c := c18bCellAt(orig, p)
		if c == nil {
			e.fails.add("rc_harness", "%s: asked position %s does not exist", what, c18bPos(p))
			return nil
		}
		must[c18bPos(p)] = true
		askedCell[c] = true
		if sameNodeOK {
			mayCell[c] = true
		}
		if v, err := refH.hashDepth(c, 0); err == nil {
			askedHash[v.hash] = true
		}
	}
	// parallel walk by position
	twin := false
	var cmp func(o, p *boc.Cell, pos []int)
	cmp = func(o, p *boc.Cell, pos []int) {
		ps := c18bPos(pos)
		v, err := refH.hashDepth(o, 0)
		if err != nil {
			e.fails.add("rc_harness", "%s: reference: %v", what, err)
			return
		}
		if p.CellType() == boc.PrunedBranchCell && o.CellType() != boc.PrunedBranchCell {
			pd, pn := c18Data(p)
			w := c18bPrunedData(v)
			if pn != 288 || !bytes.Equal(pd, w) || len(p.Refs()) != 0 {
				e.fails.add("rc_pruned_branch_wrong_hash_or_depth", "%s: pruned branch at %s holds %x (%d bits, %d refs), the replaced sub-tree needs %x; proof %x", what, ps, pd, pn, len(p.Refs()), w, proof)
			}
			switch {
			case must[ps]:
			case mayCell[o]:
				e.sameNode++
			default:
				note := ""
				if askedCell[o] {
					twin = true
					note = " (it is the very cell that was asked to be pruned at another position: one cell referenced twice)"
				} else if askedHash[v.hash] {
					twin = true
					note = " (it is a content-identical twin of a cell that was asked to be pruned)"
				}
				e.fails.add(e.unaskedCause, "%s: the cell at position %s was not asked to be pruned but the proof holds a pruned branch there%s; original sub-tree %.300s; proof %x", what, ps, note, c18Dump(o), proof)
			}
			return
		}
		if must[ps] {
			e.fails.add("rc_asked_cell_not_pruned", "%s: position %s was asked to be pruned but is present; proof %x", what, ps, proof)
		} else if askedHash[v.hash] && !mayCell[o] {
			twin = true
		}
		od, on := c18Data(o)
		pd, pn := c18Data(p)
		if o.CellType() != p.CellType() || on != pn || !bytes.Equal(od, pd) || len(o.Refs()) != len(p.Refs()) {
			e.fails.add("rc_proof_cell_differs_from_original", "%s: proof cell at %s is t%d %x (%d bits, %d refs), original t%d %x (%d bits, %d refs); proof %x",
				what, ps, p.CellType(), pd, pn, len(p.Refs()), o.CellType(), od, on, len(o.Refs()), proof)
			return
		}
		for i := range o.Refs() {
			cmp(o.Refs()[i], p.Refs()[i], append(append([]int{}, pos...), i))
		}
	}
	cmp(orig, body, nil)
	if twin {
		e.twinCases++
	}
	return body
}

// ---------------------------------------------------------------------------------------------------------------------
// dictionaries

// c18bKeyBits writes the key bits by hand: unsigned integers big-endian on FixedSize() bits, byte arrays as they are.
func c18bKeyBits(k fixedSize) []bool {
	n := k.FixedSize()
	out := make([]bool, n)
	v := reflect.ValueOf(k)
	switch v.Kind() {
	case reflect.Uint8, reflect.Uint16, reflect.Uint32, reflect.Uint64:
		x := v.Uint()
		for i := 0; i < n; i++ {
			out[i] = x>>uint(n-1-i)&1 != 0
		}
	case reflect.Array:
		for i := 0; i < n; i++ {
			out[i] = byte(v.Index(i/8).Uint())&(0x80>>uint(i%8)) != 0
		}
	default:
		panic(fmt.Sprintf("c18bKeyBits: unsupported key type %T", k))
	}
	return out
}

func c18bBitString(b []bool) boc.BitString {
	bs := boc.NewBitString(len(b))
	for _, x := range b {
		_ = bs.WriteBit(x)
	}
	return bs
}

func c18bBitsHex(b []bool) string {
	var sb strings.Builder
	for i := 0; i < len(b); i += 4 {
		d := 0
		for j := 0; j < 4; j++ {
			d <<= 1
			if i+j < len(b) && b[i+j] {
				d |= 1
			}
		}
		fmt.Fprintf(&sb, "%x", d)
	}
	return sb.String()
}

func c18bUintBits(x uint64, n int) []bool {
	out := make([]bool, n)
	for i := range out {
		out[i] = x>>uint(n-1-i)&1 != 0
	}
	return out
}

func c18bEncU32(v Uint32) ([]bool, []bool) { return c18bUintBits(uint64(v), 32), nil }

// c18bValRef: a value that owns a child cell (a:uint16 b:^uint32).
type c18bValRef struct {
	A Uint16
	B Uint32 `tlb:"^"`
}

func c18bEncValRef(v c18bValRef) ([]bool, []bool) {
	return c18bUintBits(uint64(v.A), 16), c18bUintBits(uint64(v.B), 32)
}

// c18bKeyPath returns the branch taken at every fork on the way to key (key must be present).
func c18bKeyPath(root *boc.Cell, key []bool) ([]int, error) {
	n, off, c := len(key), 0, root
	var branch []int
	for {
		lab, _, err := c18Label(c18Bits(c), 0, n)
		if err != nil {
			return nil, err
		}
		off += len(lab)
		n -= len(lab)
		if n == 0 {
			return branch, nil
		}
		bit := 0
		if key[off] {
			bit = 1
		}
		off++
		n--
		branch = append(branch, bit)
		if len(c.Refs()) != 2 {
			return nil, fmt.Errorf("fork with %d refs", len(c.Refs()))
		}
		c = c.Refs()[bit]
	}
}

type c18bDictOpts struct {
	useE         bool // HashmapE instead of Hashmap
	sharedProver bool // one prover for all keys instead of a fresh one per key
	viaBoc       bool // re-read the dictionary from its serialisation (equal sub-trees become one shared cell)
}

// c18bRunDict proves every present key and expects a refusal for every absent one.
func c18bRunDict[K fixedSize, V any](e *c18bEnv, o c18bDictOpts, name string, keys []K, vals []V, absent []K, enc func(V) ([]bool, []bool)) {
	kh := make([]string, len(keys))
	for i, k := range keys {
		kh[i] = c18bBitsHex(c18bKeyBits(k))
	}
	what := fmt.Sprintf("%s keys(hex)=%v vals=%v hashmapE=%v rereadFromBoc=%v", name, kh, vals, o.useE, o.viaBoc)
	if len(what) > 700 {
		what = what[:700] + "..."
	}
	defer func() {
		if r := recover(); r != nil {
			e.fails.add("rc_panic", "%s: panic: %v", what, r)
		}
	}()
	cell := boc.NewCell()
	var dict *boc.Cell
	if o.useE {
		if err := Marshal(cell, NewHashmapE(keys, vals)); err != nil {
			e.fails.add("rc_harness_or_encoder", "%s: Marshal: %v", what, err)
			return
		}
		if cell.BitSize() != 1 || len(cell.Refs()) != 1 {
			e.fails.add("rc_harness_or_encoder", "%s: HashmapE cell has %d bits and %d refs", what, cell.BitSize(), len(cell.Refs()))
			return
		}
		dict = cell.Refs()[0]
	} else {
		if err := Marshal(cell, NewHashmap(keys, vals)); err != nil {
			e.fails.add("rc_harness_or_encoder", "%s: Marshal: %v", what, err)
			return
		}
		dict = cell
	}
	if o.viaBoc {
		before, err := newC18Hasher().hashDepth(dict, 0)
		if err != nil {
			e.fails.add("rc_harness", "%s: reference: %v", what, err)
			return
		}
		ser, err := boc.SerializeBoc(dict, false, false, false, 0)
		if err != nil {
			e.fails.add("rc_harness_or_encoder", "%s: SerializeBoc: %v", what, err)
			return
		}
		cells, err := boc.DeserializeBoc(ser)
		if err != nil || len(cells) != 1 {
			e.fails.add("rc_harness_or_encoder", "%s: DeserializeBoc of the dictionary: %v", what, err)
			return
		}
		dict = cells[0]
		if after, err := newC18Hasher().hashDepth(dict, 0); err != nil || after != before {
			e.fails.add("rc_harness_or_encoder", "%s: the re-read dictionary has another hash (%v)", what, err)
			return
		}
	}
	refH := newC18Hasher()
	before, err := refH.hashDepth(dict, 0)
	if err != nil {
		e.fails.add("rc_harness", "%s: reference: %v", what, err)
		return
	}
	var prover *boc.MerkleProver
	newProver := func() bool {
		if prover == nil || !o.sharedProver {
			dict.ResetCounters()
			if prover, err = boc.NewMerkleProver(dict); err != nil {
				e.fails.add("rc_prover_construction_fails", "%s: NewMerkleProver: %v; dictionary %.600s", what, err, c18Dump(dict))
				return false
			}
		}
		return true
	}
	for i, k := range keys {
		kbits := c18bKeyBits(k)
		kw := fmt.Sprintf("%s; prove key #%d (%s)", what, i, c18bBitsHex(kbits))
		e.count(kw)
		leafBits, childBits := enc(vals[i])
		w0, err := c18Walk(dict, kbits)
		if err != nil || !w0.found || !reflect.DeepEqual(w0.value, leafBits) {
			e.fails.add("rc_harness_or_encoder", "%s: the independent walk does not find key -> value in the marshalled dictionary (%v) %.600s", kw, err, c18Dump(dict))
			continue
		}
		branch, err := c18bKeyPath(dict, kbits)
		if err != nil {
			e.fails.add("rc_harness", "%s: key path: %v", kw, err)
			continue
		}
		var asked [][]int
		for j := range branch {
			asked = append(asked, append(append([]int{}, branch[:j]...), 1-branch[j]))
		}
		if !newProver() {
			return
		}
		dict.ResetCounters()
		val, proof, err := ProveKeyInHashmap[V](prover, dict, c18bBitString(kbits))
		if err != nil || proof == nil {
			e.fails.add("rc_present_key_not_proved", "%s: ProveKeyInHashmap failed: %v; dictionary %.600s", kw, err, c18Dump(dict))
			continue
		}
		if !reflect.DeepEqual(val, vals[i]) {
			e.fails.add("rc_returned_value_wrong", "%s: returned value %v, want %v", kw, val, vals[i])
		}
		body := e.checkProof(kw, proof, dict, refH, asked, false)
		if body == nil {
			continue
		}
		// the value is readable from the proof alone: independent walk ...
		w1, err := c18Walk(body, kbits)
		if err != nil || !w1.found {
			e.fails.add("rc_value_not_decodable_from_proof", "%s: the key cannot be followed through the proof (found=%v, %v); proof %x", kw, w1.found, err, proof)
		} else {
			ok := reflect.DeepEqual(w1.value, leafBits)
			if childBits == nil {
				ok = ok && len(w1.leaf.Refs()) == 0
			} else {
				ok = ok && len(w1.leaf.Refs()) == 1 && w1.leaf.Refs()[0].CellType() == boc.OrdinaryCell &&
					reflect.DeepEqual(c18Bits(w1.leaf.Refs()[0]), childBits) && len(w1.leaf.Refs()[0].Refs()) == 0
			}
			if !ok {
				e.fails.add("rc_proof_reveals_another_value", "%s: the leaf of the proof %.300s does not carry the value %v; proof %x", kw, c18Dump(w1.leaf), vals[i], proof)
			}
		}
		// ... and the library's own decoder
		roots, _ := boc.DeserializeBoc(proof)
		var mp MerkleProof[Hashmap[K, V]]
		if err := Unmarshal(roots[0], &mp); err != nil {
			e.fails.add("rc_library_decoder_rejects_proof", "%s: decoding the proof as MerkleProof[Hashmap]: %v; proof %x", kw, err, proof)
		} else {
			if mp.VirtualHash != Bits256(before.hash) || int(mp.Depth) != before.depth {
				e.fails.add("rc_proof_root_commits_to_wrong_hash_or_depth", "%s: decoded proof commits to %x/%d, original %x/%d", kw, mp.VirtualHash, mp.Depth, before.hash, before.depth)
			}
			ks, vs := mp.VirtualRoot.Keys(), mp.VirtualRoot.Values()
			if len(ks) != 1 || !ks[0].Equal(k) || !reflect.DeepEqual(vs[0], vals[i]) {
				e.fails.add("rc_library_decoder_does_not_see_the_proven_pair", "%s: the library decodes keys %v values %v from the proof, want the proven pair only; proof %x", kw, ks, vs, proof)
			}
		}
	}
	for _, k := range absent {
		kbits := c18bKeyBits(k)
		kw := fmt.Sprintf("%s; absent key %s", what, c18bBitsHex(kbits))
		e.count(kw)
		if w, err := c18Walk(dict, kbits); err != nil || w.found {
			e.fails.add("rc_harness", "%s: key is not absent (%v)", kw, err)
			continue
		}
		if !newProver() {
			return
		}
		dict.ResetCounters()
		val, proof, err := ProveKeyInHashmap[V](prover, dict, c18bBitString(kbits))
		if err == nil || proof != nil {
			e.fails.add("rc_absent_key_gets_proof", "%s: got value %v and proof %x (err %v) for a key that is not in the dictionary %.600s", kw, val, proof, err, c18Dump(dict))
		}
	}
	dict.ResetCounters()
	if after, err := newC18Hasher().hashDepth(dict, 0); err != nil || after != before {
		e.fails.add("rc_dictionary_mutated_by_prover", "%s: dictionary hash changed while proving: %x -> %x (%v)", what, before.hash, after.hash, err)
	}
}

// c18bAbsent8 returns up to 6 keys that are not in keys: one-bit neighbours of the first keys, then 00 / ff / 55.
func c18bAbsent8(keys []Uint8) []Uint8 {
	in := map[Uint8]bool{}
	for _, k := range keys {
		in[k] = true
	}
	var out []Uint8
	add := func(k Uint8) {
		if !in[k] && len(out) < 6 {
			in[k] = true
			out = append(out, k)
		}
	}
	for i := 0; i < len(keys) && i < 2; i++ {
		for _, b := range []uint{0, 7, 3} {
			add(keys[i] ^ Uint8(1<<b))
		}
	}
	add(0x00)
	add(0xff)
	add(0x55)
	return out
}

func (e *c18bEnv) dictsA(thorough, viaBoc bool) {
	n := 0
	run := func(name string, keys []Uint8, vals []Uint32) {
		n++
		o := c18bDictOpts{useE: n%2 == 0, sharedProver: n%3 == 0, viaBoc: viaBoc}
		c18bRunDict(e, o, name, keys, vals, c18bAbsent8(keys), c18bEncU32)
	}
	run("A named {01:7,81:7}", []Uint8{0x01, 0x81}, []Uint32{7, 7})
	run("A named {12:7,13:9,92:7,93:9}", []Uint8{0x12, 0x13, 0x92, 0x93}, []Uint32{7, 9, 7, 9})
	hand := []struct {
		k []Uint8
		v []Uint32
	}{
		{[]Uint8{0x00, 0xff}, []Uint32{5, 5}},
		{[]Uint8{0x00, 0x01}, []Uint32{5, 5}},
		{[]Uint8{0x7f, 0x80}, []Uint32{0, 0}},
		{[]Uint8{0x12, 0x13, 0x92, 0x93}, []Uint32{7, 7, 7, 7}},
		{[]Uint8{0x12, 0x13, 0x92, 0x93}, []Uint32{7, 9, 9, 7}},                   // mirrored, halves differ
		{[]Uint8{0x10, 0x11, 0x50, 0x51, 0x90, 0x91}, []Uint32{1, 2, 1, 2, 1, 2}}, // twin one level down only on the left
		{[]Uint8{0x00, 0x40, 0x80, 0xc0, 0xc1}, []Uint32{3, 3, 3, 3, 3}},
		{[]Uint8{0x20, 0x21, 0x22, 0x23, 0xa0, 0xa1, 0xa2, 0xa3, 0xe0}, []Uint32{4, 4, 4, 4, 4, 4, 4, 4, 4}},
	}
	for i, h := range hand {
		run(fmt.Sprintf("A hand-made #%d", i), h.k, h.v)
	}
	maxK := 6
	if thorough {
		maxK = 8
	}
	for k := 1; k <= maxK; k++ {
		for si, shift := range []int{0, 8 - k} {
			if si == 1 && shift == 0 {
				continue
			}
			for _, period := range []int{1, 2, 4, 8} {
				if period > 1<<uint(k) {
					continue
				}
				var keys []Uint8
				var vals []Uint32
				for i := 0; i < 1<<uint(k); i++ {
					keys = append(keys, Uint8(i<<uint(shift)))
					vals = append(vals, Uint32(1000+i%period))
				}
				run(fmt.Sprintf("A dense k=%d shift=%d period=%d", k, shift, period), keys, vals)
			}
		}
	}
}

// c18bProduct: keys mk(h, l) for h in his, l in los.
func c18bProduct[K fixedSize, V any](e *c18bEnv, o c18bDictOpts, name string, mk func(h, l int) K, his, los []int, val func(h, l int) V, enc func(V) ([]bool, []bool)) {
	var keys, absent []K
	var vals []V
	inH, inL := map[int]bool{}, map[int]bool{}
	for _, h := range his {
		inH[h] = true
		for _, l := range los {
			inL[l] = true
			keys = append(keys, mk(h, l))
			vals = append(vals, val(h, l))
		}
	}
	for _, h := range []int{his[0] ^ 8, his[0] ^ 1, 0xf, 0x0} { // a leading nibble that is not used
		if !inH[h] && len(absent) < 2 {
			absent = append(absent, mk(h, los[0]))
			inH[h] = true
		}
	}
	for _, l := range []int{los[0] ^ 0x80, los[0] ^ 1, los[len(los)-1] ^ 2, 0x55} { // a last byte that is not used
		if !inL[l] && len(absent) < 5 {
			absent = append(absent, mk(his[len(his)-1], l))
			inL[l] = true
		}
	}
	c18bRunDict(e, o, name, keys, vals, absent, enc)
}

func (e *c18bEnv) dictsB(thorough, viaBoc bool) {
	hSets := [][]int{{0x0, 0x8}, {0x1, 0x9}, {0x2, 0x3, 0xa, 0xb}, {0x0, 0x4, 0x8, 0xc}, {0x6, 0x7}, {0x5, 0xd, 0xe}, {0, 1, 2, 3, 4, 5, 6, 7, 8, 9, 10, 11, 12, 13, 14}}
	lSets := [][]int{{0x01}, {0x12, 0x13}, {0x00, 0xff}, {0, 1, 2, 3}, {0x10, 0x11, 0x90, 0x91}, {0x20, 0x21, 0x22, 0x23, 0x24, 0x25, 0x26, 0x27}}
	valFns := []struct {
		name string
		f    func(h, l int) Uint32
	}{
		{"const", func(h, l int) Uint32 { return 7 }},
		{"byLastByte", func(h, l int) Uint32 { return Uint32(100 + l) }},
		{"byParity", func(h, l int) Uint32 { return Uint32(7 + 2*(l&1)) }},
	}
	if thorough {
		hSets = append(hSets, []int{0, 1, 2, 3, 4, 5, 6, 7, 8, 9, 10, 11, 12, 13, 14, 15}, []int{0x3, 0x7, 0xb, 0xf})
		lSets = append(lSets, []int{0x40, 0x41, 0x42, 0x43, 0x44, 0x45, 0x46, 0x47, 0x48, 0x49, 0x4a, 0x4b, 0x4c, 0x4d, 0x4e, 0x4f}, []int{0x00, 0x80}, []int{0x7f, 0x80, 0xff})
	}
	n := 0
	for hi, hs := range hSets {
		for li, ls := range lSets {
			for _, vf := range valFns {
				n++
				o := c18bDictOpts{useE: n%2 == 1, sharedProver: n%3 == 1, viaBoc: viaBoc}
				id := fmt.Sprintf("H%d L%d val=%s", hi, li, vf.name)
				c18bProduct(e, o, "B 12-bit "+id, func(h, l int) Uint12 { return Uint12(h<<8 | l) }, hs, ls, vf.f, c18bEncU32)
				c18bProduct(e, o, "B 16-bit "+id, func(h, l int) Uint16 { return Uint16(h<<12 | 0x300 | l) }, hs, ls, vf.f, c18bEncU32)
				c18bProduct(e, o, "B 32-bit "+id, func(h, l int) Uint32 { return Uint32(uint32(h)<<28 | 0x0abcd00 | uint32(l)) }, hs, ls, vf.f, c18bEncU32)
				c18bProduct(e, o, "B 256-bit "+id, func(h, l int) Bits256 {
					var k Bits256
					for i := range k {
						k[i] = byte(i*7 + 1)
					}
					k[0] = byte(h<<4 | 5)
					k[31] = byte(l)
					return k
				}, hs, ls, vf.f, c18bEncU32)
				if vf.name != "byParity" {
					// values owning a child cell; the children are all equal
					c18bProduct(e, o, "B 16-bit child-cell "+id, func(h, l int) Uint16 { return Uint16(h<<12 | l<<4 | 0xf) }, hs, ls,
						func(h, l int) c18bValRef { return c18bValRef{A: Uint16(vf.f(h, l)), B: 0xdeadbeef} }, c18bEncValRef)
				}
			}
		}
	}
}

func (e *c18bEnv) dictsC(thorough bool, rng *rand.Rand) {
	rounds, maxN := 300, 12
	if thorough {
		rounds, maxN = 30000, 24
	}
	for r := 0; r < rounds; r++ {
		n := 2 + rng.Intn(maxN-1)
		o := c18bDictOpts{useE: r%2 == 0, sharedProver: r%3 == 0}
		if r%2 == 0 {
			base := Uint8(rng.Intn(256)) & 0x70
			set := map[Uint8]bool{}
			for i := 0; i < n; i++ {
				set[base|Uint8(rng.Intn(2))<<7|Uint8(rng.Intn(maxN*2/3))] = true
			}
			var keys []Uint8
			for k := range set {
				keys = append(keys, k)
			}
			sort.Slice(keys, func(i, j int) bool { return keys[i] < keys[j] })
			vals := make([]Uint32, len(keys))
			for i := range vals {
				vals[i] = Uint32(7 + 2*rng.Intn(2))
			}
			c18bRunDict(e, o, fmt.Sprintf("C random 8-bit round %d", r), keys, vals, c18bAbsent8(keys), c18bEncU32)
		} else {
			base := Uint16(rng.Intn(1<<16)) & 0x3ff0
			set := map[Uint16]bool{}
			for i := 0; i < n; i++ {
				set[base|Uint16(rng.Intn(4))<<14|Uint16(rng.Intn(maxN/3))] = true
			}
			var keys []Uint16
			for k := range set {
				keys = append(keys, k)
			}
			sort.Slice(keys, func(i, j int) bool { return keys[i] < keys[j] })
			vals := make([]Uint32, len(keys))
			for i := range vals {
				vals[i] = Uint32(7 + 2*rng.Intn(2))
			}
			var absent []Uint16
			for _, c := range []Uint16{keys[0] ^ 0x8000, keys[0] ^ 1, keys[len(keys)-1] ^ 0x0100, keys[len(keys)-1] ^ 4} {
				if !set[c] {
					set[c] = true
					absent = append(absent, c)
				}
			}
			c18bRunDict(e, o, fmt.Sprintf("C random 16-bit round %d", r), keys, vals, absent, c18bEncU32)
		}
	}
}

func TestVerifStandin_C18_RepeatedDicts(t *testing.T) {
	e := newC18bEnv("c18_repeated_dicts", "rc_unasked_cell_pruned", "rc_value_not_decodable_from_proof", "rc_library_decoder_does_not_see_the_proven_pair",
		"rc_absent_key_gets_proof", "rc_present_key_not_proved", "rc_virtual_root_hash_differs_from_original", "rc_pruned_branch_wrong_hash_or_depth", "rc_level_mask_inconsistent")
	defer e.finish(t, true)
	e.dictsA(vhThorough(), false)
	a := e.stat.cases
	e.dictsB(vhThorough(), false)
	b := e.stat.cases
	e.dictsC(vhThorough(), rand.New(rand.NewSource(c18Seed())))
	t.Logf("cases: A %d, B %d, C %d", a, b-a, e.stat.cases-b)
}

// TestVerifStandin_C18_SharedParsedDict: the same dictionaries after a round trip through their serialisation. Equal
// sub-trees are then ONE cell referenced from both sides of a fork; the contract of ProveKeyInHashmap is unchanged.
func TestVerifStandin_C18_SharedParsedDict(t *testing.T) {
	e := newC18bEnv("c18_shared_parsed_dict", "rc_shared_cell_on_proven_path_pruned", "rc_value_not_decodable_from_proof", "rc_library_decoder_does_not_see_the_proven_pair")
	e.unaskedCause = "rc_shared_cell_on_proven_path_pruned"
	defer e.finish(t, false)
	e.dictsA(vhThorough(), true)
	e.dictsB(vhThorough(), true)
}

// ---------------------------------------------------------------------------------------------------------------------
// cursor API

// c18bMk builds an ordinary cell with the given data bits ('0' / '1') and children.
func c18bMk(data string, kids ...*boc.Cell) *boc.Cell {
	c := boc.NewCell()
	for _, ch := range data {
		_ = c.WriteBit(ch == '1')
	}
	for _, k := range kids {
		_ = c.AddRef(k)
	}
	return c
}

// c18bPositions lists the non-root positions of the expanded tree (shared cells are listed once per occurrence).
func c18bPositions(root *boc.Cell, limit int) [][]int {
	var out [][]int
	var walk func(c *boc.Cell, p []int) bool
	walk = func(c *boc.Cell, p []int) bool {
		for i, r := range c.Refs() {
			np := append(append([]int{}, p...), i)
			out = append(out, np)
			if len(out) > limit {
				return false
			}
			if !walk(r, np) {
				return false
			}
		}
		return true
	}
	if !walk(root, nil) {
		return nil
	}
	return out
}

// c18bRunCursor asks for the given positions to be pruned and checks the proof.
func (e *c18bEnv) runCursor(what string, tree *boc.Cell, asked [][]int) {
	e.count(what)
	defer func() {
		if r := recover(); r != nil {
			e.fails.add("rc_panic", "%s: panic: %v", what, r)
		}
	}()
	refH := newC18Hasher()
	before, err := refH.hashDepth(tree, 0)
	if err != nil {
		e.fails.add("rc_harness", "%s: reference: %v", what, err)
		return
	}
	prover, err := boc.NewMerkleProver(tree)
	if err != nil {
		e.fails.add("rc_prover_construction_fails", "%s: NewMerkleProver: %v", what, err)
		return
	}
	cur := prover.Cursor()
	for _, p := range asked {
		c := cur
		for _, k := range p {
			c = c.Ref(k)
		}
		c.Prune()
	}
	proof, err := prover.CreateProof(cur)
	if err != nil || proof == nil {
		e.fails.add("rc_create_proof_fails", "%s: CreateProof: %v", what, err)
		return
	}
	e.checkProof(what, proof, tree, refH, asked, true)
	if after, err := newC18Hasher().hashDepth(tree, 0); err != nil || after != before {
		e.fails.add("rc_tree_mutated_by_prover", "%s: hash of the original changed while proving: %x -> %x (%v)", what, before.hash, after.hash, err)
	}
}

func c18bFixedTrees() []*boc.Cell {
	leaf := func() *boc.Cell { return c18bMk("10110") }
	pair := func() *boc.Cell { return c18bMk("0111", leaf(), leaf()) }
	a := leaf()
	s := c18bMk("110011", c18bMk("1"))
	lf := c18bMk("1")
	// chain of twins: at every level the two children have equal content, only the left one goes on
	chain := func(depth int) *boc.Cell {
		var mk func(d int) *boc.Cell
		mk = func(d int) *boc.Cell {
			if d == 0 {
				return c18bMk("1010")
			}
			return c18bMk(strings.Repeat("1", d), mk(d-1), mk(d-1))
		}
		return mk(depth)
	}
	x := c18bMk("01", c18bMk("001"), c18bMk("001"))
	return []*boc.Cell{
		c18bMk("1", a, a),                                   // 0: one cell referenced twice
		c18bMk("1", leaf(), leaf()),                         // 1: two distinct cells, equal content
		c18bMk("00", pair(), pair()),                        // 2: equal sub-trees, equal leaves, all distinct cells
		c18bMk("101", s, c18bMk("111", s, lf), c18bMk("1")), // 3: shared sub-tree + a distinct twin of its leaf and of lf
		chain(3),                                 // 4: full binary tree of twins
		c18bMk("", a, leaf(), leaf(), a),         // 5: four references: shared and distinct twins mixed
		c18bMk("1", leaf(), c18bMk("0", leaf())), // 6: twin at another depth
		c18bMk("", x, c18bMk("01", c18bMk("001"), c18bMk("001")), x),                                         // 7: shared and distinct twins that have twins inside
		c18bMk("11", c18bMk("", c18bMk("", c18bMk("", leaf()))), c18bMk("", c18bMk("", c18bMk("", leaf())))), // 8: twin chains
		c18bMk("0", pair(), c18bMk("0111", leaf(), c18bMk("10111"))),                                         // 9: near twins (one bit differs)
	}
}

func TestVerifStandin_C18_RepeatedCursor(t *testing.T) {
	e := newC18bEnv("c18_repeated_cursor", "rc_unasked_cell_pruned", "rc_asked_cell_not_pruned", "rc_virtual_root_hash_differs_from_original",
		"rc_pruned_branch_wrong_hash_or_depth", "rc_level_mask_inconsistent", "rc_proof_cell_differs_from_original")
	defer e.finish(t, true)
	thorough := vhThorough()
	for ti, tree := range c18bFixedTrees() {
		pos := c18bPositions(tree, 64)
		if pos == nil {
			e.fails.add("rc_harness", "tree %d is too large", ti)
			continue
		}
		dump := c18Dump(tree)
		run := func(asked [][]int) {
			e.runCursor(fmt.Sprintf("tree %d %s asked=%s", ti, dump, c18bPosList(asked)), tree, asked)
		}
		run(nil)
		for i := range pos {
			run([][]int{pos[i]})
			for j := i + 1; j < len(pos); j++ {
				run([][]int{pos[i], pos[j]})
				run([][]int{pos[j], pos[i]})
				if thorough {
					for k := j + 1; k < len(pos); k++ {
						run([][]int{pos[i], pos[j], pos[k]})
						for l := k + 1; l < len(pos); l++ {
							run([][]int{pos[l], pos[i], pos[k], pos[j]})
						}
					}
				}
			}
		}
	}
}

// ---------------------------------------------------------------------------------------------------------------------
// random trees over a small alphabet

type c18bGen struct {
	rng      *rand.Rand
	alphabet []string
	pool     []*boc.Cell
	height   map[*boc.Cell]int
}

func (g *c18bGen) gen(depth int) *boc.Cell {
	if len(g.pool) > 0 && g.rng.Intn(100) < 15 {
		c := g.pool[g.rng.Intn(len(g.pool))]
		if g.height[c] <= depth {
			return c // the same cell once more
		}
	}
	nk := 0
	if depth > 0 {
		nk = []int{0, 1, 2, 2, 2, 3, 4}[g.rng.Intn(7)]
	}
	kids := make([]*boc.Cell, nk)
	h := 0
	for i := range kids {
		kids[i] = g.gen(depth - 1)
		if g.height[kids[i]]+1 > h {
			h = g.height[kids[i]] + 1
		}
	}
	c := c18bMk(g.alphabet[g.rng.Intn(len(g.alphabet))], kids...)
	g.height[c] = h
	g.pool = append(g.pool, c)
	return c
}

func TestVerifStandin_C18_RepeatedRandom(t *testing.T) {
	e := newC18bEnv("c18_repeated_random", "rc_unasked_cell_pruned", "rc_asked_cell_not_pruned", "rc_virtual_root_hash_differs_from_original",
		"rc_pruned_branch_wrong_hash_or_depth", "rc_level_mask_inconsistent", "rc_proof_cell_differs_from_original")
	defer e.finish(t, true)
	rng := rand.New(rand.NewSource(c18Seed()))
	trees, maxDepth, maxPos := 400, 4, 300
	if vhThorough() {
		trees, maxDepth, maxPos = 60000, 5, 600
	}
	words := []string{"", "1", "10110001", "0", "111100001111"}
	made, twinTrees := 0, 0
	for attempt := 0; made < trees && attempt < 20*trees; attempt++ {
		na := 1 + rng.Intn(3)
		g := &c18bGen{rng: rng, height: map[*boc.Cell]int{}}
		for _, i := range rng.Perm(len(words))[:na] {
			g.alphabet = append(g.alphabet, words[i])
		}
		tree := g.gen(2 + rng.Intn(maxDepth-1))
		pos := c18bPositions(tree, maxPos)
		if len(pos) < 2 {
			continue
		}
		made++
		dump := c18Dump(tree)
		if len(dump) > 900 {
			dump = dump[:900] + "..."
		}
		run := func(mode string, asked [][]int) {
			e.runCursor(fmt.Sprintf("random tree #%d (seed %d, alphabet %q) %s; %s asked=%s", made, c18Seed(), g.alphabet, dump, mode, c18bPosList(asked)), tree, asked)
		}
		// (a) path proof: the siblings along a random walk from the root to a leaf
		{
			var asked [][]int
			var p []int
			c := tree
			for len(c.Refs()) > 0 {
				k := rng.Intn(len(c.Refs()))
				for i := range c.Refs() {
					if i != k {
						asked = append(asked, append(append([]int{}, p...), i))
					}
				}
				p = append(p, k)
				c = c.Refs()[k]
			}
			run("path "+c18bPos(p), asked)
		}
		// (b) one position
		run("single", [][]int{pos[rng.Intn(len(pos))]})
		// (c) 2..4 positions
		{
			var asked [][]int
			n := 2 + rng.Intn(3)
			if n > len(pos) {
				n = len(pos)
			}
			for _, i := range rng.Perm(len(pos))[:n] {
				asked = append(asked, pos[i])
			}
			run("set", asked)
		}
		// (d) one of two distinct cells with equal content
		{
			h := newC18Hasher()
			type occ struct {
				c *boc.Cell
				p []int
			}
			byHash := map[[32]byte][]occ{}
			var order [][32]byte
			for _, p := range pos {
				c := c18bCellAt(tree, p)
				v, err := h.hashDepth(c, 0)
				if err != nil {
					continue
				}
				if _, ok := byHash[v.hash]; !ok {
					order = append(order, v.hash)
				}
				byHash[v.hash] = append(byHash[v.hash], occ{c, p})
			}
			var cands [][]int
			for _, hs := range order {
				os := byHash[hs]
				for _, o := range os[1:] {
					if o.c != os[0].c {
						cands = append(cands, os[0].p, o.p)
						break
					}
				}
			}
			if len(cands) > 0 {
				twinTrees++
				run("twin", [][]int{cands[rng.Intn(len(cands))]})
			}
		}
	}
	if made < trees {
		e.fails.add("rc_harness", "only %d of %d trees generated", made, trees)
	}
	t.Logf("trees %d, of which %d hold two distinct cells with equal content", made, twinTrees)
}
