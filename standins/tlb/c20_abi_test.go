//go:build verif

package tlb_test

// Bounded stand-in for C20 (labelled bounded, never counted as proved), package abi part: the message-body envelopes
// abi.InMsgBody and abi.ExtOutMsgBody. It lives here as an external test of package tlb because the test binary of
// package abi itself cannot be linked in the sandbox (its own test files pull in the cgo emulator library).
//
// Bound: the empty body, unknown bodies (op code nil / 0 / max / random x 6 (quick) / 100 (thorough) random cell trees),
// known bodies TextComment (ASCII, quotes / backslash / control characters, multi-byte UTF-8), Excess (query id
// boundaries), JettonBurn (amounts 1, 2^120-1, std / none / var response addresses), and for abi.ExtOutMsgBody MegatonSwap
// with random addresses and amounts. Malformed input: every truncation and single-byte substitutions (12 / 40 byte
// values per position) of the seed documents (first 300 bytes in the quick tier) plus wrong-shape documents.
// Oracle: the envelope fields are compared directly; the Value is compared with reflect.DeepEqual for plain bodies,
// by cell tree text for unknown bodies, and field by field (big integers with Cmp) for JettonBurn / MegatonSwap.

import (
	"encoding/json"
	"fmt"
	"math/big"
	"math/rand"
	"os"
	"reflect"
	"sort"
	"strconv"
	"strings"
	"testing"

	"github.com/tonkeeper/tongo/abi"
	"github.com/tonkeeper/tongo/boc"
	"github.com/tonkeeper/tongo/tlb"
)

func c20Seed() int64 {
	if v, err := strconv.ParseInt(os.Getenv("VERIF_SEED"), 10, 64); err == nil {
		return v
	}
	return 1
}

type c20Fails struct {
	count map[string]int
	msgs  map[string][]string
	known []string
}

func (f *c20Fails) add(cause, format string, args ...any) {
	if f.count == nil {
		f.count, f.msgs = map[string]int{}, map[string][]string{}
	}
	f.count[cause]++
	if len(f.msgs[cause]) < 6 {
		m := fmt.Sprintf(format, args...)
		if len(m) > 1200 {
			m = m[:1200] + "...(truncated)"
		}
		f.msgs[cause] = append(f.msgs[cause], m)
	}
}

func (f *c20Fails) report(t *testing.T) {
	names := map[string]bool{}
	for _, k := range f.known {
		names[k] = true
	}
	for k := range f.count {
		names[k] = true
	}
	var sorted []string
	for k := range names {
		sorted = append(sorted, k)
	}
	sort.Strings(sorted)
	for _, k := range sorted {
		k := k
		t.Run(k, func(t *testing.T) {
			if f.count[k] == 0 {
				return
			}
			t.Errorf("%d failing case(s); first %d:", f.count[k], len(f.msgs[k]))
			for _, m := range f.msgs[k] {
				t.Errorf("  %s", m)
			}
		})
	}
}

func c20Safe(fn func()) (p string) {
	defer func() {
		if r := recover(); r != nil {
			p = fmt.Sprintf("panic: %v", r)
		}
	}()
	fn()
	return ""
}

var c20Subst = []byte{'"', '\\', '0', '9', 'f', 'g', '-', ':', '_', ' ', 0x00, 0xff}
var c20SubstMore = []byte{'{', '}', '[', ']', ',', 'n', 'u', 'l', 'x', 'A', 'z', '(', ')', '.', 'e', '+', '\n', '\t', 0x7f, 0x80, 0xc3, '1', '8', 'a', 'F', 'G', '/', '\''}

// c20Mutations: every truncation and single-byte substitutions of the seeds, plus wrong-shape documents.
func c20Mutations(seeds []string, wrongShape []string, thorough bool, feed func(doc []byte)) {
	subst := c20Subst
	if thorough {
		subst = append(append([]byte{}, c20Subst...), c20SubstMore...)
	}
	for _, s := range seeds {
		b := []byte(s)
		for n := 0; n <= len(b); n++ {
			feed(b[:n])
		}
		for pos := 0; pos < len(b); pos++ {
			for _, x := range subst {
				if b[pos] != x {
					m := append([]byte{}, b...)
					m[pos] = x
					feed(m)
				}
			}
		}
	}
	for _, d := range wrongShape {
		feed([]byte(d))
	}
}

var c20WrongShape = []string{`null`, `true`, `{}`, `[]`, `""`, `12`, `{"SumType":1}`, `{"SumType":"Unknown"}`, `{"SumType":"Unknown","Value":null}`, `{"SumType":"Unknown","Value":12}`,
	`{"SumType":"Unknown","Value":"zz"}`, `{"SumType":"Unknown","Value":"b5ee9c72"}`, `{"SumType":"TextComment"}`, `{"SumType":"TextComment","Value":null}`, `{"SumType":"TextComment","Value":[]}`,
	`{"SumType":"NoSuchBody","Value":{}}`, `{"SumType":"JettonBurn","Value":{"Amount":"x"}}`, `{"SumType":"JettonBurn","OpCode":-1,"Value":{}}`, `{"SumType":"JettonBurn","OpCode":4294967296,"Value":{}}`,
	`{"SumType":"MegatonSwap","Value":{"Field3":null}}`, `{"OpCode":1}`, `{"Value":{}}`}

func c20CellTree(c *boc.Cell, depth int) string {
	if c == nil {
		return "<nil>"
	}
	if depth > 64 {
		return "<deep>"
	}
	cc := *c
	cc.ResetCounters()
	bs := cc.RawBitString()
	s := fmt.Sprintf("%d:%s{", c.CellType(), bs.BinaryString())
	for _, r := range c.Refs() {
		s += c20CellTree(r, depth+1) + ","
	}
	return s + "}"
}

func c20RandCell(rng *rand.Rand, d int) *boc.Cell {
	c := boc.NewCell()
	n := []int{0, 1, 8, 33, 1023, rng.Intn(1024)}[rng.Intn(6)]
	for i := 0; i < n; i++ {
		_ = c.WriteBit(rng.Intn(2) == 1)
	}
	if d > 0 {
		for i := rng.Intn(4); i > 0; i-- {
			_ = c.AddRef(c20RandCell(rng, d-1))
		}
	}
	return c
}

func c20AddrEq(a, b tlb.MsgAddress) bool {
	x, _ := json.Marshal(a)
	y, _ := json.Marshal(b)
	return a.SumType == b.SumType && string(x) == string(y)
}

func c20BigEq(a, b big.Int) bool { return a.Cmp(&b) == 0 }

// c20ValueEq compares the Value of two envelopes of the same SumType.
func c20ValueEq(a, b any) string {
	if reflect.TypeOf(a) != reflect.TypeOf(b) {
		return fmt.Sprintf("dynamic types differ: %T vs %T", a, b)
	}
	switch x := a.(type) {
	case *boc.Cell:
		if ta, tb := c20CellTree(x, 0), c20CellTree(b.(*boc.Cell), 0); ta != tb {
			return fmt.Sprintf("cells differ: %.200s vs %.200s", ta, tb)
		}
	case abi.JettonBurnMsgBody:
		y := b.(abi.JettonBurnMsgBody)
		if x.QueryId != y.QueryId || !c20BigEq(big.Int(x.Amount), big.Int(y.Amount)) || !c20AddrEq(x.ResponseDestination, y.ResponseDestination) || (x.CustomPayload == nil) != (y.CustomPayload == nil) {
			return fmt.Sprintf("JettonBurn differs: %+v vs %+v", x, y)
		}
	case abi.MegatonSwapExtOutMsgBody:
		y := b.(abi.MegatonSwapExtOutMsgBody)
		if !c20AddrEq(x.AccountAddr, y.AccountAddr) || !c20AddrEq(x.InTokenAddr, y.InTokenAddr) || x.InAmount != y.InAmount ||
			!c20AddrEq(x.Field3.OutTokenAddr, y.Field3.OutTokenAddr) || x.Field3.OutAmount != y.Field3.OutAmount {
			return fmt.Sprintf("MegatonSwap differs: %+v vs %+v", x, y)
		}
	default:
		if !reflect.DeepEqual(a, b) {
			return fmt.Sprintf("values differ: %+v vs %+v", a, b)
		}
	}
	return ""
}

func c20OpEq(a, b *uint32) bool {
	if a == nil || b == nil {
		return a == nil && b == nil
	}
	return *a == *b
}

func c20StdAddr(rng *rand.Rand, wc int8) tlb.MsgAddress {
	a := tlb.MsgAddress{SumType: "AddrStd"}
	a.AddrStd.WorkchainId = wc
	rng.Read(a.AddrStd.Address[:])
	return a
}

func TestVerifStandin_C20_JSON_AbiBodies(t *testing.T) {
	rng := rand.New(rand.NewSource(c20Seed()))
	thorough := os.Getenv("VERIF_TIER") == "thorough"
	fails := &c20Fails{known: []string{"rc_inmsgbody_json_roundtrip", "rc_extoutmsgbody_json_roundtrip", "rc_inmsgbody_unmarshaljson_panics", "rc_extoutmsgbody_unmarshaljson_panics"}}
	cases, distinct := 0, map[string]struct{}{}
	note := func(k string) {
		cases++
		distinct[k] = struct{}{}
	}
	u32 := func(v uint32) *uint32 { return &v }
	ncell := 6
	if thorough {
		ncell = 100
	}
	var cells []*boc.Cell
	cells = append(cells, boc.NewCell())
	for i := 0; i < ncell; i++ {
		cells = append(cells, c20RandCell(rng, i%4))
	}
	ops := []*uint32{nil, u32(0), u32(0xffffffff), u32(rng.Uint32())}

	// ---- abi.InMsgBody ----
	var in []abi.InMsgBody
	in = append(in, abi.InMsgBody{SumType: abi.EmptyMsgOp})
	for _, c := range cells {
		for _, op := range ops {
			in = append(in, abi.InMsgBody{SumType: abi.UnknownMsgOp, OpCode: op, Value: c})
		}
	}
	for _, s := range []string{"", "hello", "quote \" backslash \\ slash / tab \t newline \n nul \x00", "привет ✓ 𝄞", "</script><!--", strings.Repeat("x", 300)} {
		in = append(in, abi.InMsgBody{SumType: abi.TextCommentMsgOp, OpCode: u32(0), Value: abi.TextCommentMsgBody{Text: tlb.Text(s)}})
	}
	for _, q := range []uint64{0, 1, 1<<53 + 1, 1<<63 - 1, 1 << 63, 1<<64 - 1} {
		in = append(in, abi.InMsgBody{SumType: abi.ExcessMsgOp, OpCode: u32(0xd53276db), Value: abi.ExcessMsgBody{QueryId: q}})
	}
	var varAddr tlb.MsgAddress
	_ = json.Unmarshal([]byte(`"300:ABCDE_"`), &varAddr)
	big120 := new(big.Int).Sub(new(big.Int).Lsh(big.NewInt(1), 120), big.NewInt(1))
	for _, amt := range []*big.Int{big.NewInt(1), big120, big.NewInt(1000000000)} {
		for _, dst := range []tlb.MsgAddress{c20StdAddr(rng, 0), c20StdAddr(rng, -1), {SumType: "AddrNone"}, varAddr} {
			in = append(in, abi.InMsgBody{SumType: abi.JettonBurnMsgOp, OpCode: u32(0x595f07bc), Value: abi.JettonBurnMsgBody{QueryId: rng.Uint64(), Amount: tlb.VarUInteger16(*amt), ResponseDestination: dst}})
		}
	}
	var inSeeds []string
	for i, v := range in {
		what := fmt.Sprintf("InMsgBody{%s op=%v value=%.200v}", v.SumType, v.OpCode, v.Value)
		if c, ok := v.Value.(*boc.Cell); ok {
			what = fmt.Sprintf("InMsgBody{%s op=%v cell=%.200s}", v.SumType, v.OpCode, c20CellTree(c, 0))
		}
		if v.OpCode != nil {
			what += fmt.Sprintf(" opcode=%d", *v.OpCode)
		}
		note(fmt.Sprintf("in|%d|%s", i, what))
		var b []byte
		var err error
		if p := c20Safe(func() { b, err = json.Marshal(v) }); p != "" || err != nil {
			fails.add("rc_inmsgbody_json_roundtrip", "%s: Marshal failed: %v %v", what, p, err)
			continue
		}
		if !json.Valid(b) {
			fails.add("rc_inmsgbody_json_roundtrip", "%s: invalid JSON %.300q", what, b)
			continue
		}
		var back abi.InMsgBody
		if p := c20Safe(func() { err = json.Unmarshal(b, &back) }); p != "" || err != nil {
			fails.add("rc_inmsgbody_json_roundtrip", "%s: JSON %.300s does not parse back: %v %v", what, b, p, err)
			continue
		}
		if back.SumType != v.SumType || !c20OpEq(back.OpCode, v.OpCode) {
			fails.add("rc_inmsgbody_json_roundtrip", "%s: JSON %.300s parses back with SumType %q OpCode %v", what, b, back.SumType, back.OpCode)
			continue
		}
		if d := c20ValueEq(v.Value, back.Value); d != "" {
			fails.add("rc_inmsgbody_json_roundtrip", "%s: JSON %.300s: %s", what, b, d)
		}
		if i == 0 || i == 3 || v.SumType == abi.ExcessMsgOp && len(inSeeds) < 4 || v.SumType == abi.JettonBurnMsgOp && len(inSeeds) < 5 || v.SumType == abi.TextCommentMsgOp && len(inSeeds) < 3 {
			inSeeds = append(inSeeds, string(b))
		}
	}

	// ---- abi.ExtOutMsgBody ----
	var out []abi.ExtOutMsgBody
	out = append(out, abi.ExtOutMsgBody{SumType: abi.EmptyMsgOp})
	for _, c := range cells {
		for _, op := range ops {
			out = append(out, abi.ExtOutMsgBody{SumType: abi.UnknownMsgOp, OpCode: op, Value: c})
		}
	}
	for i := 0; i < 6; i++ {
		var v abi.MegatonSwapExtOutMsgBody
		v.AccountAddr, v.InTokenAddr, v.Field3.OutTokenAddr = c20StdAddr(rng, 0), c20StdAddr(rng, -1), c20StdAddr(rng, 127)
		v.InAmount, v.Field3.OutAmount = tlb.Grams(rng.Uint64()>>uint(i*10)), tlb.Grams([]uint64{0, 1, 1<<63 - 1, 1 << 63, 1<<64 - 1, 12345}[i])
		out = append(out, abi.ExtOutMsgBody{SumType: abi.MegatonSwapExtOutMsgOp, OpCode: u32(0x7362d09c), Value: v})
	}
	var outSeeds []string
	for i, v := range out {
		what := fmt.Sprintf("ExtOutMsgBody{%s value=%.200v}", v.SumType, v.Value)
		if c, ok := v.Value.(*boc.Cell); ok {
			what = fmt.Sprintf("ExtOutMsgBody{%s cell=%.200s}", v.SumType, c20CellTree(c, 0))
		}
		if v.OpCode != nil {
			what += fmt.Sprintf(" opcode=%d", *v.OpCode)
		}
		note(fmt.Sprintf("out|%d|%s", i, what))
		var b []byte
		var err error
		if p := c20Safe(func() { b, err = json.Marshal(v) }); p != "" || err != nil {
			fails.add("rc_extoutmsgbody_json_roundtrip", "%s: Marshal failed: %v %v", what, p, err)
			continue
		}
		if !json.Valid(b) {
			fails.add("rc_extoutmsgbody_json_roundtrip", "%s: invalid JSON %.300q", what, b)
			continue
		}
		var back abi.ExtOutMsgBody
		if p := c20Safe(func() { err = json.Unmarshal(b, &back) }); p != "" || err != nil {
			fails.add("rc_extoutmsgbody_json_roundtrip", "%s: JSON %.300s does not parse back: %v %v", what, b, p, err)
			continue
		}
		if back.SumType != v.SumType || !c20OpEq(back.OpCode, v.OpCode) {
			fails.add("rc_extoutmsgbody_json_roundtrip", "%s: JSON %.300s parses back with SumType %q OpCode %v", what, b, back.SumType, back.OpCode)
			continue
		}
		if d := c20ValueEq(v.Value, back.Value); d != "" {
			fails.add("rc_extoutmsgbody_json_roundtrip", "%s: JSON %.300s: %s", what, b, d)
		}
		if i == 0 || i == 3 || v.SumType == abi.MegatonSwapExtOutMsgOp && len(outSeeds) < 3 {
			outSeeds = append(outSeeds, string(b))
		}
	}

	// ---- malformed documents ----
	clip := func(seeds []string) []string {
		var o []string
		for _, s := range seeds {
			if len(s) > 300 && !thorough {
				s = s[:300]
			}
			o = append(o, s)
		}
		return o
	}
	c20Mutations(clip(inSeeds), c20WrongShape, thorough, func(doc []byte) {
		note("in|doc|" + string(doc))
		if p := c20Safe(func() { var x abi.InMsgBody; _ = json.Unmarshal(doc, &x) }); p != "" {
			fails.add("rc_inmsgbody_unmarshaljson_panics", "json.Unmarshal(abi.InMsgBody) on %q: %s", doc, p)
		}
		if p := c20Safe(func() { var x abi.InMsgBody; _ = x.UnmarshalJSON(append([]byte{}, doc...)) }); p != "" {
			fails.add("rc_inmsgbody_unmarshaljson_panics", "InMsgBody.UnmarshalJSON on %q: %s", doc, p)
		}
	})
	c20Mutations(clip(outSeeds), c20WrongShape, thorough, func(doc []byte) {
		note("out|doc|" + string(doc))
		if p := c20Safe(func() { var x abi.ExtOutMsgBody; _ = json.Unmarshal(doc, &x) }); p != "" {
			fails.add("rc_extoutmsgbody_unmarshaljson_panics", "json.Unmarshal(abi.ExtOutMsgBody) on %q: %s", doc, p)
		}
		if p := c20Safe(func() { var x abi.ExtOutMsgBody; _ = x.UnmarshalJSON(append([]byte{}, doc...)) }); p != "" {
			fails.add("rc_extoutmsgbody_unmarshaljson_panics", "ExtOutMsgBody.UnmarshalJSON on %q: %s", doc, p)
		}
	})
	fails.report(t)
	fmt.Printf("STANDIN-STAT name=c20_json_abi cases=%d distinct=%d\n", cases, len(distinct))
}
