//go:build verif

package tonconnect

// Bounded stand-in for C19 (labelled bounded, never counted as proved).
// Stands in for: the end-to-end behaviour of CreateSignedProof / Server.CheckProof / Server.CheckPayload /
// ParseStateInit, which the prover only covers piecewise (key length, message layout).
//
// Oracle (TON Connect ton_proof specification, written here independently of createMessage):
//   message = sha256(0xffff ++ "ton-connect" ++ sha256("ton-proof-item-v2/" ++ workchain(be32) ++ address(32) ++
//             domainLen(le32) ++ domain ++ timestamp(le64) ++ payload))
//   the signature is ed25519 over message with the key that controls the address: the key returned by the wallet's
//   get_public_key get-method, else the key stored in a state-init whose hash is the address and whose code is a
//   known wallet.  Server payload (mechanism of server.go): hex(nonce8 ++ be64(ts) ++ hmac_sha256(secret, first16)[:16]).
//
// Bound: the 11 wallet versions that package wallet can build and tonconnect knows (V1R1..V5R1 without the lockup
// wallet) x seeded key pairs (quick 3 incl. one public key with a leading zero byte, thorough 6) x workchains {0,-1}
// x 6 domains x 3 timestamps inside the lifetime x 13 fake get-method executors; every single-field substitution
// listed in the property on 2 keys per version under both key sources; signature bit flips (quick: every 8th bit,
// thorough: all 512); proof timestamps around the lifetime boundary; server payloads (fresh, expired by crafted
// timestamp and by a real 1 s lifetime, other secret, tampered byte by byte, wrong length, non-hex); malformed
// state-inits (no code / no data, unknown code, other key, lockup wallet, multi-root, garbage, truncated) through
// CheckProof; ParseStateInit directly on every truncation (quick: every 4th) and single-byte substitution
// (quick: 8 values per position on one version; thorough: all 255 values per position on all versions) of valid state-inits and on
// data cells cut at every bit length.

import (
	"context"
	"crypto/ed25519"
	"crypto/hmac"
	"crypto/sha256"
	"crypto/sha512"
	"encoding/base64"
	"encoding/binary"
	"encoding/hex"
	"encoding/json"
	"errors"
	"fmt"
	"math"
	"math/big"
	"math/rand"
	"os"
	"sort"
	"strconv"
	"strings"
	"testing"
	"time"

	"github.com/tonkeeper/tongo/boc"
	"github.com/tonkeeper/tongo/tlb"
	"github.com/tonkeeper/tongo/ton"
	"github.com/tonkeeper/tongo/wallet"
)

// ---- harness helpers (copied from standins/tlb/verif_helper_test.go, c19 prefix) ----

func c19Thorough() bool { return os.Getenv("VERIF_TIER") == "thorough" }

func c19Seed() int64 {
	if s := os.Getenv("VERIF_SEED"); s != "" {
		if v, err := strconv.ParseInt(s, 10, 64); err == nil {
			return v
		}
	}
	return 1
}

type c19Stat struct {
	name     string
	cases    int
	distinct map[[12]byte]struct{}
}

func c19NewStat(name string) *c19Stat { return &c19Stat{name: name, distinct: map[[12]byte]struct{}{}} }
func (s *c19Stat) add(key string) {
	s.cases++
	h := sha256.Sum256([]byte(key))
	var k [12]byte
	copy(k[:], h[:12])
	s.distinct[k] = struct{}{}
}
func (s *c19Stat) print() {
	fmt.Printf("STANDIN-STAT name=%s cases=%d distinct=%d\n", s.name, s.cases, len(s.distinct))
}

// c19Failures collects failures keyed by root cause; every root cause is reported in its own sub-test with a stable
// name. Known root causes are always run (so that they show PASS once fixed).
type c19Failures struct {
	byCause map[string][]string
	count   map[string]int
	known   []string
}

func c19NewFailures(known ...string) *c19Failures {
	return &c19Failures{byCause: map[string][]string{}, count: map[string]int{}, known: known}
}

func (f *c19Failures) add(cause, format string, args ...any) {
	f.count[cause]++
	if len(f.byCause[cause]) < 6 {
		msg := fmt.Sprintf(format, args...)
		if len(msg) > 3000 {
			msg = msg[:3000] + "...(truncated)"
		}
		f.byCause[cause] = append(f.byCause[cause], msg)
	}
}

func (f *c19Failures) report(t *testing.T) {
	names := map[string]bool{}
	for _, k := range f.known {
		names[k] = true
	}
	for k := range f.count {
		names[k] = true
	}
	var sorted []string
	for k := range names {
		sorted = append(sorted, k)
	}
	sort.Strings(sorted)
	for _, k := range sorted {
		k := k
		t.Run(k, func(t *testing.T) {
			if f.count[k] == 0 {
				return
			}
			t.Errorf("%d failing case(s); first %d:", f.count[k], len(f.byCause[k]))
			for _, m := range f.byCause[k] {
				t.Errorf("  %s", m)
			}
		})
	}
}

// c19Guard runs fn under a deadline and converts a panic into a message ("" = returned normally).
func c19Guard(fn func()) string {
	done := make(chan string, 1)
	go func() {
		defer func() {
			if r := recover(); r != nil {
				done <- fmt.Sprintf("panic: %v", r)
			}
		}()
		fn()
		done <- ""
	}()
	select {
	case s := <-done:
		return s
	case <-time.After(20 * time.Second):
		return "no result after 20s (hang)"
	}
}

// c19Group: the leading words of a case label ("truncated-12-of-90/v4R2" -> "truncated"), used to give failures of
// different checks different sub-test names.
func c19Group(kind string) string {
	n := 0
	for n < len(kind) {
		ch := kind[n]
		if (ch >= 'a' && ch <= 'z') || (ch >= 'A' && ch <= 'Z') || ch == '-' || ch == '_' {
			n++
			continue
		}
		break
	}
	g := strings.Trim(strings.ReplaceAll(strings.ToLower(kind[:n]), "-", "_"), "_")
	if g == "" {
		g = "other"
	}
	return g
}

// c19Info counts observations that are stricter than the property (never a failure): one t.Logf line each.
type c19Info struct {
	count map[string]int
	first map[string]string
}

func (i *c19Info) add(name, format string, args ...any) {
	if i.count[name] == 0 {
		msg := fmt.Sprintf(format, args...)
		if len(msg) > 1500 {
			msg = msg[:1500] + "...(truncated)"
		}
		i.first[name] = msg
	}
	i.count[name]++
}

func (i *c19Info) report(t *testing.T) {
	var names []string
	for k := range i.count {
		names = append(names, k)
	}
	sort.Strings(names)
	for _, k := range names {
		t.Logf("INFO c19 %s: %d cases, first: %s", k, i.count[k], i.first[k])
	}
}

// ---- the specification side ----

// c19MsgVariant selects deliberate deviations from the specified message layout (all false = the specification).
type c19MsgVariant struct {
	itemPrefix    string // "" = "ton-proof-item-v2/"
	connectPrefix string // "" = "ton-connect"
	noFFFF        bool
	wcLE          bool
	tsBE          bool
	dlBE          bool
	dlDelta       int  // added to the domain length field
	dl8           bool // 1-byte length
	noInnerHash   bool
	noOuterHash   bool
	payloadRaw    bool // payload hex-decoded instead of the string bytes
}

func c19Message(wc int32, addr []byte, domain string, ts int64, payload string, v c19MsgVariant) []byte {
	item := "ton-proof-item-v2/"
	if v.itemPrefix != "" {
		item = v.itemPrefix
	}
	conn := "ton-connect"
	if v.connectPrefix != "" {
		conn = v.connectPrefix
	}
	inner := []byte(item)
	u := uint32(wc)
	if v.wcLE {
		inner = append(inner, byte(u), byte(u>>8), byte(u>>16), byte(u>>24))
	} else {
		inner = append(inner, byte(u>>24), byte(u>>16), byte(u>>8), byte(u))
	}
	inner = append(inner, addr...)
	dl := uint32(len(domain) + v.dlDelta)
	switch {
	case v.dl8:
		inner = append(inner, byte(dl))
	case v.dlBE:
		inner = append(inner, byte(dl>>24), byte(dl>>16), byte(dl>>8), byte(dl))
	default:
		inner = append(inner, byte(dl), byte(dl>>8), byte(dl>>16), byte(dl>>24))
	}
	inner = append(inner, domain...)
	t := uint64(ts)
	for i := 0; i < 8; i++ {
		if v.tsBE {
			inner = append(inner, byte(t>>(56-8*uint(i))))
		} else {
			inner = append(inner, byte(t>>(8*uint(i))))
		}
	}
	if v.payloadRaw {
		raw, _ := hex.DecodeString(payload)
		inner = append(inner, raw...)
	} else {
		inner = append(inner, payload...)
	}
	var outer []byte
	if !v.noFFFF {
		outer = append(outer, 0xff, 0xff)
	}
	outer = append(outer, conn...)
	if v.noInnerHash {
		outer = append(outer, inner...)
	} else {
		h := sha256.Sum256(inner)
		outer = append(outer, h[:]...)
	}
	if v.noOuterHash {
		return outer
	}
	r := sha256.Sum256(outer)
	return r[:]
}

// c19CraftPayload builds a server payload from the mechanism description, independently of GeneratePayload.
func c19CraftPayload(secret string, nonce [8]byte, ts int64) string {
	p := make([]byte, 16)
	copy(p, nonce[:])
	binary.BigEndian.PutUint64(p[8:], uint64(ts))
	m := hmac.New(sha256.New, []byte(secret))
	m.Write(p)
	return hex.EncodeToString(append(p, m.Sum(nil)[:16]...))
}

// ---- fake get-method executor ----

type c19Exec struct {
	fn       func(acc ton.AccountID) (uint32, tlb.VmStack, error)
	calls    int
	badCalls []string
}

func (e *c19Exec) RunSmcMethodByID(ctx context.Context, acc ton.AccountID, methodID int, params tlb.VmStack) (uint32, tlb.VmStack, error) {
	e.calls++
	if methodID != 78748 || len(params) != 0 {
		if len(e.badCalls) < 4 {
			e.badCalls = append(e.badCalls, fmt.Sprintf("method %d with %d params on %s", methodID, len(params), acc.ToRaw()))
		}
	}
	return e.fn(acc)
}

func c19IntValue(k []byte) tlb.VmStackValue {
	return tlb.VmStackValue{SumType: "VmStkInt", VmStkInt: tlb.Int257(*new(big.Int).SetBytes(k))}
}

type c19Flavour struct {
	name     string
	givesKey bool
	fn       func(key, wrong []byte) (uint32, tlb.VmStack, error)
}

// (a) get_public_key answers, (b) the call fails, (c) non-zero exit code / garbage stack (always carrying a WRONG key so
// that using the garbage would be visible).
var c19Flavours = []c19Flavour{
	{"getter_ok", true, func(k, w []byte) (uint32, tlb.VmStack, error) { return 0, tlb.VmStack{c19IntValue(k)}, nil }},
	{"getter_ok_exit1", true, func(k, w []byte) (uint32, tlb.VmStack, error) { return 1, tlb.VmStack{c19IntValue(k)}, nil }},
	{"getter_error", false, func(k, w []byte) (uint32, tlb.VmStack, error) { return 0, nil, errors.New("c19: no such account") }},
	{"getter_error_with_stack", false, func(k, w []byte) (uint32, tlb.VmStack, error) {
		return 0, tlb.VmStack{c19IntValue(w)}, errors.New("c19: lite server error")
	}},
	{"getter_exit11", false, func(k, w []byte) (uint32, tlb.VmStack, error) { return 11, tlb.VmStack{c19IntValue(w)}, nil }},
	{"getter_exit_max", false, func(k, w []byte) (uint32, tlb.VmStack, error) {
		return math.MaxUint32, tlb.VmStack{c19IntValue(w)}, nil
	}},
	{"getter_empty_stack", false, func(k, w []byte) (uint32, tlb.VmStack, error) { return 0, tlb.VmStack{}, nil }},
	{"getter_two_values", false, func(k, w []byte) (uint32, tlb.VmStack, error) {
		return 0, tlb.VmStack{c19IntValue(w), {SumType: "VmStkTinyInt", VmStkTinyInt: 0}}, nil
	}},
	{"getter_cell", false, func(k, w []byte) (uint32, tlb.VmStack, error) {
		c := boc.NewCell()
		_ = c.WriteBytes(w)
		return 0, tlb.VmStack{{SumType: "VmStkCell", VmStkCell: tlb.Ref[boc.Cell]{Value: *c}}}, nil
	}},
	{"getter_null", false, func(k, w []byte) (uint32, tlb.VmStack, error) { return 0, tlb.VmStack{{SumType: "VmStkNull"}}, nil }},
	{"getter_nan", false, func(k, w []byte) (uint32, tlb.VmStack, error) { return 0, tlb.VmStack{{SumType: "VmStkNan"}}, nil }},
	{"getter_tinyint", false, func(k, w []byte) (uint32, tlb.VmStack, error) {
		return 0, tlb.VmStack{{SumType: "VmStkTinyInt", VmStkTinyInt: 5}}, nil
	}},
	{"getter_int_over_256_bits", false, func(k, w []byte) (uint32, tlb.VmStack, error) {
		return 0, tlb.VmStack{c19IntValue(append([]byte{1}, w...))}, nil
	}},
}

// ---- wallets ----

var c19Versions = []wallet.Version{
	wallet.V1R1, wallet.V1R2, wallet.V1R3, wallet.V2R1, wallet.V2R2, wallet.V3R1, wallet.V3R2,
	wallet.V4R1, wallet.V4R2, wallet.V5Beta, wallet.V5R1,
}

// c19KeyOffset: bit offset of the 256-bit public key in the data cell, from the wallet contracts' storage layouts
// (v1/v2: seqno:32; v3/v4: seqno:32 subwallet:32; v5beta: seqno:33 wallet_id:80; v5r1: signature_allowed:1 seqno:32
// wallet_id:32).
func c19KeyOffset(v wallet.Version) int {
	switch v {
	case wallet.V1R1, wallet.V1R2, wallet.V1R3, wallet.V2R1, wallet.V2R2:
		return 32
	case wallet.V3R1, wallet.V3R2, wallet.V4R1, wallet.V4R2, wallet.V3R2Lockup:
		return 64
	case wallet.V5Beta:
		return 113
	case wallet.V5R1:
		return 65
	}
	return -1
}

type c19Wallet struct {
	ver   wallet.Version
	name  string
	priv  ed25519.PrivateKey
	pub   ed25519.PublicKey
	wc    int
	si    tlb.StateInit
	siB64 string
	addr  ton.AccountID
}

func c19MakeWallet(ver wallet.Version, priv ed25519.PrivateKey, wc int, sub *uint32, net *int32) (*c19Wallet, error) {
	pub := priv.Public().(ed25519.PublicKey)
	si, err := wallet.GenerateStateInit(pub, ver, net, wc, sub)
	if err != nil {
		return nil, fmt.Errorf("GenerateStateInit: %v", err)
	}
	if !si.Code.Exists || !si.Data.Exists {
		return nil, fmt.Errorf("GenerateStateInit(%v): state-init without code or data", ver)
	}
	addr, err := wallet.GenerateWalletAddress(pub, ver, net, wc, sub)
	if err != nil {
		return nil, fmt.Errorf("GenerateWalletAddress: %v", err)
	}
	cell := boc.NewCell()
	if err := tlb.Marshal(cell, si); err != nil {
		return nil, err
	}
	h, err := cell.Hash256()
	if err != nil {
		return nil, err
	}
	if h != [32]byte(addr.Address) || int(addr.Workchain) != wc {
		return nil, fmt.Errorf("address %s is not wc %d : hash of the state-init %x", addr.ToRaw(), wc, h)
	}
	b64, err := cell.ToBocBase64()
	if err != nil {
		return nil, err
	}
	return &c19Wallet{ver: ver, name: ver.ToString(), priv: priv, pub: pub, wc: wc, si: si, siB64: b64, addr: addr}, nil
}

// c19RawStateInit builds a StateInit cell bit by bit: split_depth:(Maybe) special:(Maybe) code:(Maybe ^Cell)
// data:(Maybe ^Cell) library:(HashmapE 256 SimpleLib).
func c19RawStateInit(code, data *boc.Cell) *boc.Cell {
	c := boc.NewCell()
	_ = c.WriteBit(false)
	_ = c.WriteBit(false)
	_ = c.WriteBit(code != nil)
	if code != nil {
		_ = c.AddRef(code)
	}
	_ = c.WriteBit(data != nil)
	if data != nil {
		_ = c.AddRef(data)
	}
	_ = c.WriteBit(false)
	return c
}

func c19CellB64(c *boc.Cell) string {
	s, err := c.ToBocBase64()
	if err != nil {
		panic("c19: cannot serialise a test cell: " + err.Error())
	}
	return s
}

func c19AddrOf(c *boc.Cell, wc int32) ton.AccountID {
	h, err := c.Hash256()
	if err != nil {
		panic("c19: cannot hash a test cell: " + err.Error())
	}
	return ton.AccountID{Workchain: wc, Address: h}
}

// c19DataCell: the first n bits of bits ('0'/'1').
func c19BitsCell(bits string) *boc.Cell {
	c := boc.NewCell()
	for i := 0; i < len(bits); i++ {
		_ = c.WriteBit(bits[i] == '1')
	}
	return c
}

func c19CellBits(c *boc.Cell) string {
	cc := *c
	cc.ResetCounters()
	n := cc.BitsAvailableForRead()
	out := make([]byte, 0, n)
	for i := 0; i < n; i++ {
		b, err := cc.ReadBit()
		if err != nil {
			break
		}
		if b {
			out = append(out, '1')
		} else {
			out = append(out, '0')
		}
	}
	return string(out)
}

func c19BytesBits(b []byte) string {
	var sb strings.Builder
	for _, x := range b {
		fmt.Fprintf(&sb, "%08b", x)
	}
	return sb.String()
}

// ---- the test context ----

type c19Ctx struct {
	rng *rand.Rand
	st  *c19Stat
	f   *c19Failures
	inf *c19Info
	ex  *c19Exec
	srv *Server
	now time.Time
}

func c19ProofJSON(p *Proof) string {
	b, _ := json.Marshal(p)
	return string(b)
}

func c19Copy(p *Proof) *Proof { q := *p; return &q }

type c19Result struct {
	ok  bool
	key ed25519.PublicKey
	err error
	bad string // panic / hang
}

func (c *c19Ctx) check(srv *Server, p *Proof, dom string) c19Result {
	var r c19Result
	q := c19Copy(p)
	r.bad = c19Guard(func() {
		r.ok, r.key, r.err = srv.CheckProof(context.Background(), q, srv.CheckPayload, StaticDomain(dom))
	})
	return r
}

// accept: the proof must be accepted and yield key want.
func (c *c19Ctx) accept(kind string, srv *Server, p *Proof, dom string, want ed25519.PublicKey) bool {
	c.st.add(kind + "|" + dom + "|" + c19ProofJSON(p))
	r := c.check(srv, p, dom)
	sfx := ""
	if g := c19Group(kind); g != "valid" {
		sfx = "_" + g
	}
	switch {
	case r.bad != "":
		c.f.add("rc_panic_checkproof_valid_proof"+sfx, "%s: CheckProof %s; domain=%q proof=%s", kind, r.bad, dom, c19ProofJSON(p))
	case !r.ok || r.err != nil:
		c.f.add("rc_valid_proof_rejected"+sfx, "%s: CheckProof = (%v, %x, %v), want accepted with key %x; domain=%q proof=%s", kind, r.ok, []byte(r.key), r.err, []byte(want), dom, c19ProofJSON(p))
	case !want.Equal(r.key):
		c.f.add("rc_wrong_key_returned"+sfx, "%s: CheckProof returned key %x, want %x; domain=%q proof=%s", kind, []byte(r.key), []byte(want), dom, c19ProofJSON(p))
	default:
		return true
	}
	return false
}

// reject: the proof must be rejected with an error.
func (c *c19Ctx) reject(cause, kind string, srv *Server, p *Proof, dom string) {
	c.st.add(kind + "|" + dom + "|" + c19ProofJSON(p))
	r := c.check(srv, p, dom)
	switch {
	case r.bad != "":
		pc := "rc_panic_checkproof_" + strings.TrimPrefix(cause, "rc_")
		if cause == "rc_stateinit_missing_code_or_data" {
			pc = cause // known root cause: ParseStateInit used to return (nil, nil) and ed25519.Verify panics on an empty key
		}
		c.f.add(pc, "%s: CheckProof %s; domain=%q proof=%s", kind, r.bad, dom, c19ProofJSON(p))
	case r.ok:
		c.f.add(cause, "%s: CheckProof accepted (key %x, err %v), want rejected; domain=%q proof=%s", kind, []byte(r.key), r.err, dom, c19ProofJSON(p))
	case r.err == nil:
		c.f.add("rc_reject_without_error_"+strings.TrimPrefix(cause, "rc_"), "%s: CheckProof = (false, %x, nil): rejected without an error; domain=%q proof=%s", kind, []byte(r.key), dom, c19ProofJSON(p))
	}
}

// observe: stricter than the property: an accepted proof is only counted (informational); a panic is still a failure.
func (c *c19Ctx) observe(name, kind string, srv *Server, p *Proof, dom string) {
	c.st.add(kind + "|" + dom + "|" + c19ProofJSON(p))
	r := c.check(srv, p, dom)
	switch {
	case r.bad != "":
		c.f.add("rc_panic_checkproof_"+name, "%s: CheckProof %s; domain=%q proof=%s", kind, r.bad, dom, c19ProofJSON(p))
	case r.ok:
		c.inf.add(name, "%s: CheckProof accepted (key %x); domain=%q proof=%s", kind, []byte(r.key), dom, c19ProofJSON(p))
	case r.err == nil:
		c.f.add("rc_reject_without_error_"+name, "%s: CheckProof = (false, %x, nil): rejected without an error; domain=%q proof=%s", kind, []byte(r.key), dom, c19ProofJSON(p))
	}
}

// section runs one part of the test; a panic outside the guarded library calls (test helpers, oracle) is reported as
// its own sub-test instead of killing the run.
func (c *c19Ctx) section(name string, fn func()) {
	defer func() {
		if r := recover(); r != nil {
			c.f.add("rc_section_panic_"+name, "panic outside a guarded call in section %s: %v", name, r)
		}
	}()
	fn()
}

// sign builds a proof with the specification's message, without any library code.
func c19SpecProof(addr ton.AccountID, priv ed25519.PrivateKey, siB64, domain string, ts int64, payload string, v c19MsgVariant) *Proof {
	msg := c19Message(addr.Workchain, addr.Address[:], domain, ts, payload, v)
	return &Proof{
		Address: fmt.Sprintf("%d:%x", addr.Workchain, addr.Address[:]),
		Proof: ProofData{
			Timestamp: ts, Domain: domain, Payload: payload, StateInit: siB64,
			Signature: base64.StdEncoding.EncodeToString(ed25519.Sign(priv, msg)),
		},
	}
}

func (c *c19Ctx) create(w *c19Wallet, domain string, ts time.Time, payload string) *Proof {
	var p *Proof
	var err error
	bad := c19Guard(func() {
		p, err = CreateSignedProof(payload, w.addr, w.priv, w.si, ProofOptions{Timestamp: ts, Domain: domain})
	})
	if bad != "" || err != nil || p == nil {
		c.f.add("rc_create_signed_proof_failed", "CreateSignedProof(%s key %x wc %d domain %q ts %d payload %q): %s err=%v", w.name, []byte(w.pub), w.wc, domain, ts.Unix(), payload, bad, err)
		return nil
	}
	return p
}

func (c *c19Ctx) keyPair() ed25519.PrivateKey {
	seed := make([]byte, ed25519.SeedSize)
	c.rng.Read(seed)
	return ed25519.NewKeyFromSeed(seed)
}

func (c *c19Ctx) payload(srv *Server) string {
	var s string
	var err error
	if bad := c19Guard(func() { s, err = srv.GeneratePayload() }); bad != "" || err != nil {
		c.f.add("rc_generate_payload_failed", "GeneratePayload: %s err=%v", bad, err)
		return c19CraftPayload(srv.GetSecret(), [8]byte{1}, c.now.Unix())
	}
	return s
}

var c19Domains = []string{"web", "example.com", "", "sub.domain.example.org:8443", "пример.рф", strings.Repeat("a", 300)}

// ---- the test ----

func TestVerifStandin_C19_Proofs(t *testing.T) {
	f := c19NewFailures(
		"rc_panic_checkpayload", "rc_valid_proof_rejected", "rc_wrong_key_returned",
		"rc_create_signed_proof_failed", "rc_generate_payload_failed", "rc_executor_call",
		"rc_client_signature_not_over_spec_message", "rc_server_rejects_spec_signature",
		"rc_no_key_source_accepted", "rc_getter_key_not_preferred",
		"rc_address_substitution_accepted", "rc_malformed_address_accepted", "rc_domain_substitution_accepted",
		"rc_timestamp_substitution_accepted", "rc_payload_substitution_accepted",
		"rc_signature_mutation_accepted", "rc_signature_malformed_accepted", "rc_other_key_signature_accepted",
		"rc_nonspec_message_accepted",
		"rc_stateinit_other_key_accepted", "rc_stateinit_unknown_code_accepted", "rc_stateinit_missing_code_or_data",
		"rc_stateinit_malformed_accepted", "rc_stateinit_multiroot_accepted", "rc_stateinit_truncated_accepted",
		"rc_stateinit_short_data_accepted", "rc_stateinit_lockup_version_yields_zero_key",
		"rc_proof_expired_accepted", "rc_proof_payload_other_secret_accepted", "rc_proof_payload_expired_accepted",
		"rc_proof_payload_malformed_accepted",
		"rc_payload_fresh_rejected", "rc_payload_expired_accepted", "rc_payload_other_secret_accepted",
		"rc_payload_tampered_accepted", "rc_payload_malformed_accepted", "rc_payload_format", "rc_payload_repeated",
		"rc_payload_time", "rc_new_server_failed", "rc_new_server_nil_executor",
		"rc_parsestateinit_wrong_key", "rc_parsestateinit_short_data_accepted",
		"rc_known_version_missing",
	)
	c := &c19Ctx{
		rng: rand.New(rand.NewSource(c19Seed())),
		st:  c19NewStat("C19_Proofs"),
		f:   f,
		inf: &c19Info{count: map[string]int{}, first: map[string]string{}},
		ex:  &c19Exec{},
		now: time.Now(),
	}
	// printed and reported whatever happens below
	defer func() {
		c.st.print()
		c.inf.report(t)
		f.report(t)
	}()
	secret := fmt.Sprintf("c19-secret-%d", c19Seed())
	srv := c.newServer(secret)
	if srv == nil {
		return
	}
	c.srv = srv
	c.st.add("new-server-nil-executor")
	if bad := c19Guard(func() {
		if s, err := NewTonConnect(nil, secret); err == nil {
			f.add("rc_new_server_nil_executor", "NewTonConnect(nil executor) = (%v, nil), want an error", s)
		}
	}); bad != "" {
		f.add("rc_new_server_nil_executor", "NewTonConnect(nil executor): %s", bad)
	}

	// key pairs; one of them has a public key starting with a zero byte (31-byte big integer on the TVM stack)
	nKeys := 3
	if c19Thorough() {
		nKeys = 6
	}
	var keys []ed25519.PrivateKey
	for i := 0; i < nKeys-1; i++ {
		keys = append(keys, c.keyPair())
	}
	for i := 0; i < 100000; i++ {
		k := c.keyPair()
		if k.Public().(ed25519.PublicKey)[0] == 0 {
			keys = append(keys, k)
			break
		}
	}
	if len(keys) != nKeys {
		t.Fatalf("no key with a leading zero byte found")
	}

	// all wallets: version x key x workchain
	var wallets []*c19Wallet
	byVer := map[wallet.Version][]*c19Wallet{}
	for _, ver := range c19Versions {
		ch := wallet.GetCodeHashByVer(ver)
		if _, ok := knownHashes[hex.EncodeToString(ch[:])]; !ok {
			f.add("rc_known_version_missing", "code hash %x of %s is not in knownHashes", ch[:], ver.ToString())
		}
		for _, k := range keys {
			for _, wc := range []int{0, -1} {
				w, err := c19MakeWallet(ver, k, wc, nil, nil)
				if err != nil {
					t.Fatalf("oracle: cannot build wallet %v: %v", ver, err)
				}
				wallets = append(wallets, w)
				byVer[ver] = append(byVer[ver], w)
			}
		}
	}
	chain := map[ton.AccountID]ed25519.PublicKey{}
	for _, w := range wallets {
		chain[w.addr] = w.pub
	}
	stranger := c.keyPair() // a key that controls none of the wallets
	strangerPub := stranger.Public().(ed25519.PublicKey)

	payloads := []string{c.payload(srv), c.payload(srv), c.payload(srv), c.payload(srv)}
	if payloads[0] == payloads[1] {
		f.add("rc_payload_repeated", "two consecutive payloads are equal: %s", payloads[0])
	}

	c.section("positives", func() { c.positives(wallets, payloads, strangerPub) })
	c.section("negatives", func() { c.negatives(byVer, chain, payloads, stranger) })
	c.section("state_inits", func() { c.stateInits(byVer, payloads, stranger) })
	c.section("expiry", func() { c.expiry(byVer, payloads, secret) })
	c.section("payload_checks", func() { c.payloadChecks(secret) })
	c.section("parse_state_init", func() { c.parseStateInit(wallets, byVer, keys) })

	if len(c.ex.badCalls) > 0 {
		f.add("rc_executor_call", "executor called with something else than get_public_key (78748) and an empty stack: %v", c.ex.badCalls)
	}
}

// newServer: NewTonConnect under guard; nil (and a recorded failure) when the library refuses.
func (c *c19Ctx) newServer(secret string, opts ...Option) *Server {
	var s *Server
	var err error
	bad := c19Guard(func() { s, err = NewTonConnect(c.ex, secret, opts...) })
	if bad != "" || err != nil || s == nil {
		c.f.add("rc_new_server_failed", "NewTonConnect(executor, %q, %d options): %s err=%v", secret, len(opts), bad, err)
		return nil
	}
	return s
}

// positives: every wallet x executor flavour; the domain, timestamp and payload rotate (thorough: all domains).
func (c *c19Ctx) positives(wallets []*c19Wallet, payloads []string, wrongKey ed25519.PublicKey) {
	tsList := []time.Time{c.now, c.now.Add(-150 * time.Second), c.now.Add(-296 * time.Second)}
	n := 0
	for _, w := range wallets {
		doms := []string{c19Domains[n%len(c19Domains)]}
		if c19Thorough() {
			doms = c19Domains
		}
		for _, dom := range doms {
			ts := tsList[n%len(tsList)]
			payload := payloads[n%len(payloads)]
			n++
			p := c.create(w, dom, ts, payload)
			if p == nil {
				continue
			}
			id := fmt.Sprintf("%s/key %x/wc %d", w.name, []byte(w.pub[:4]), w.wc)
			// the client's signature is over the specified message
			specMsg := c19Message(int32(w.wc), w.addr.Address[:], dom, ts.Unix(), payload, c19MsgVariant{})
			sig, err := base64.StdEncoding.DecodeString(p.Proof.Signature)
			c.st.add("client-spec|" + c19ProofJSON(p))
			if err != nil || !ed25519.Verify(w.pub, specMsg, sig) {
				c.f.add("rc_client_signature_not_over_spec_message", "%s: signature of CreateSignedProof does not verify over the specified message %x (key %x): proof=%s", id, specMsg, []byte(w.pub), c19ProofJSON(p))
			}
			if p.Address != fmt.Sprintf("%d:%x", w.wc, w.addr.Address[:]) || p.Proof.Timestamp != ts.Unix() || p.Proof.Domain != dom || p.Proof.Payload != payload || p.Proof.StateInit != w.siB64 {
				c.f.add("rc_create_signed_proof_failed", "%s: fields of the created proof differ from the request: %s", id, c19ProofJSON(p))
			}
			// a proof signed without any library code is accepted by the server
			sp := c19SpecProof(w.addr, w.priv, w.siB64, dom, ts.Unix(), payload, c19MsgVariant{})
			c.ex.fn = func(acc ton.AccountID) (uint32, tlb.VmStack, error) { return 0, nil, errors.New("c19: no account") }
			c.st.add("server-spec|" + c19ProofJSON(sp))
			if r := c.check(c.srv, sp, dom); r.bad != "" {
				c.f.add("rc_panic_checkproof_spec_signature", "%s: CheckProof %s; proof=%s", id, r.bad, c19ProofJSON(sp))
			} else if !r.ok || r.err != nil || !w.pub.Equal(r.key) {
				c.f.add("rc_server_rejects_spec_signature", "%s: proof signed over the specified message: CheckProof = (%v, %x, %v); proof=%s", id, r.ok, []byte(r.key), r.err, c19ProofJSON(sp))
			}
			for _, fl := range c19Flavours {
				fl := fl
				want := w.addr
				c.ex.fn = func(acc ton.AccountID) (uint32, tlb.VmStack, error) {
					if acc != want && len(c.ex.badCalls) < 4 {
						c.ex.badCalls = append(c.ex.badCalls, fmt.Sprintf("asked for account %s, the proof is for %s", acc.ToRaw(), want.ToRaw()))
					}
					return fl.fn(w.pub, wrongKey)
				}
				kind := "valid/" + fl.name + "/" + id
				c.accept(kind, c.srv, p, dom, w.pub)
				noSI := c19Copy(p)
				noSI.Proof.StateInit = ""
				if fl.givesKey {
					// the key comes from the get-method: no state-init is needed, and a useless one does no harm
					c.accept(kind+"/no-state-init", c.srv, noSI, dom, w.pub)
					junk := c19Copy(p)
					junk.Proof.StateInit = "AAAA"
					c.accept(kind+"/junk-state-init", c.srv, junk, dom, w.pub)
				} else {
					c.reject("rc_no_key_source_accepted", kind+"/no-state-init", c.srv, noSI, dom)
				}
			}
		}
	}
}

// negatives: single-field substitutions of valid proofs under both key sources.
func (c *c19Ctx) negatives(byVer map[wallet.Version][]*c19Wallet, chain map[ton.AccountID]ed25519.PublicKey, payloads []string, stranger ed25519.PrivateKey) {
	ts := c.now.Add(-100 * time.Second)
	dom := "example.com"
	for vi, ver := range c19Versions {
		ws := byVer[ver]
		perVer := 2
		if c19Thorough() {
			perVer = 4
		}
		for wi := 0; wi < perVer && wi < len(ws); wi++ {
			// ws is ordered key-major, workchain-minor: ws[2k] is key k in workchain 0, ws[2k+1] in -1
			idx := []int{0, 3, 4, 7}[wi] % len(ws)
			w := ws[idx]
			other := ws[(idx+2)%len(ws)] // the next key, same workchain
			payload := payloads[(vi+wi)%len(payloads)]
			base := c.create(w, dom, ts, payload)
			if base == nil {
				continue
			}
			for _, src := range []string{"state-init", "get-method"} {
				src := src
				c.ex.fn = func(acc ton.AccountID) (uint32, tlb.VmStack, error) {
					if src == "state-init" {
						return 0, nil, errors.New("c19: account not found")
					}
					if k, ok := chain[acc]; ok {
						return 0, tlb.VmStack{c19IntValue(k)}, nil
					}
					return 0, nil, errors.New("c19: account not found")
				}
				id := fmt.Sprintf("%s/%s/key %x/wc %d", src, w.name, []byte(w.pub[:4]), w.wc)
				if !c.accept("neg-base/"+id, c.srv, base, dom, w.pub) {
					continue
				}
				c.negativesOf(id, w, other, base, dom, ts.Unix(), payload, payloads, stranger, vi == 0 || c19Thorough())
			}
		}
	}

	// the key on chain wins over the state-init of the proof: a proof signed by the state-init's key for an address
	// whose get_public_key answers another key is rejected
	for _, ver := range c19Versions {
		w := byVer[ver][0]
		base := c.create(w, dom, ts, payloads[0])
		if base == nil {
			continue
		}
		other := stranger.Public().(ed25519.PublicKey)
		c.ex.fn = func(acc ton.AccountID) (uint32, tlb.VmStack, error) { return 0, tlb.VmStack{c19IntValue(other)}, nil }
		c.reject("rc_getter_key_not_preferred", "getter-answers-other-key/"+w.name, c.srv, base, dom)
	}
}

func (c *c19Ctx) negativesOf(id string, w, other *c19Wallet, base *Proof, dom string, ts int64, payload string, payloads []string, stranger ed25519.PrivateKey, deep bool) {
	mut := func(fn func(p *Proof)) *Proof { p := c19Copy(base); fn(p); return p }

	// address
	c.reject("rc_address_substitution_accepted", "addr-other-wallet/"+id, c.srv, mut(func(p *Proof) { p.Address = other.addr.ToRaw() }), dom)
	c.reject("rc_address_substitution_accepted", "addr-other-wallet-and-its-state-init/"+id, c.srv, mut(func(p *Proof) { p.Address = other.addr.ToRaw(); p.Proof.StateInit = other.siB64 }), dom)
	for _, wc := range []int32{0, -1, 1, 255, math.MinInt32} {
		if int(wc) == w.wc {
			continue
		}
		c.reject("rc_address_substitution_accepted", fmt.Sprintf("addr-same-hash-wc-%d/%s", wc, id), c.srv, mut(func(p *Proof) { p.Address = fmt.Sprintf("%d:%x", wc, w.addr.Address[:]) }), dom)
	}
	for bit := 0; bit < 256; bit += 37 {
		a := w.addr
		a.Address[bit/8] ^= 0x80 >> (bit % 8)
		c.reject("rc_address_substitution_accepted", fmt.Sprintf("addr-bit-%d/%s", bit, id), c.srv, mut(func(p *Proof) { p.Address = a.ToRaw() }), dom)
	}
	hexAddr := hex.EncodeToString(w.addr.Address[:])
	for _, a := range []string{
		"", ":", "0", strconv.Itoa(w.wc) + ":", ":" + hexAddr, hexAddr, strconv.Itoa(w.wc) + ":" + hexAddr[:62], strconv.Itoa(w.wc) + ":" + hexAddr + "00",
		strconv.Itoa(w.wc) + ":" + hexAddr + ":00", "x:" + hexAddr, "4294967296:" + hexAddr, strconv.Itoa(w.wc) + ":zz" + hexAddr[2:],
		strconv.Itoa(w.wc) + ":" + hexAddr[:63], w.addr.ToHuman(true, false), w.addr.ToHuman(false, true), " " + w.addr.ToRaw(), w.addr.ToRaw() + "\n",
	} {
		c.reject("rc_malformed_address_accepted", fmt.Sprintf("addr-malformed %q/%s", a, id), c.srv, mut(func(p *Proof) { p.Address = a }), dom)
	}

	// domain value: the server is configured for the substituted domain, so only the signature can save it
	for _, d := range []string{dom + "x", dom[:len(dom)-1], "", strings.ToUpper(dom), "evil.org", dom + "\x00", "x" + dom} {
		c.reject("rc_domain_substitution_accepted", fmt.Sprintf("domain %q/%s", d, id), c.srv, mut(func(p *Proof) { p.Proof.Domain = d }), d)
		c.reject("rc_domain_substitution_accepted", fmt.Sprintf("domain %q (server expects the original)/%s", d, id), c.srv, mut(func(p *Proof) { p.Proof.Domain = d }), dom)
	}
	c.reject("rc_domain_substitution_accepted", "server expects another domain/"+id, c.srv, base, "evil.org")

	// timestamp (all inside the lifetime)
	for _, d := range []int64{1, -1, 2, -2, 60, -60, 256, -256} {
		c.reject("rc_timestamp_substitution_accepted", fmt.Sprintf("ts%+d/%s", d, id), c.srv, mut(func(p *Proof) { p.Proof.Timestamp = ts + d }), dom)
	}

	// payload: another payload issued by the same server
	for _, pl := range payloads {
		if pl == payload {
			continue
		}
		c.reject("rc_payload_substitution_accepted", "payload-other/"+id, c.srv, mut(func(p *Proof) { p.Proof.Payload = pl }), dom)
	}
	c.reject("rc_payload_substitution_accepted", "payload-uppercase/"+id, c.srv, mut(func(p *Proof) { p.Proof.Payload = strings.ToUpper(payload) }), dom)

	// signature
	sig, _ := base64.StdEncoding.DecodeString(base.Proof.Signature)
	step := 8
	if c19Thorough() {
		step = 1
	}
	if deep || c19Thorough() {
		for bit := 0; bit < len(sig)*8; bit += step {
			s := append([]byte{}, sig...)
			s[bit/8] ^= 0x80 >> (bit % 8)
			c.reject("rc_signature_mutation_accepted", fmt.Sprintf("sig-bit-%d/%s", bit, id), c.srv, mut(func(p *Proof) { p.Proof.Signature = base64.StdEncoding.EncodeToString(s) }), dom)
		}
	} else {
		for bit := 3; bit < len(sig)*8; bit += 64 {
			s := append([]byte{}, sig...)
			s[bit/8] ^= 0x80 >> (bit % 8)
			c.reject("rc_signature_mutation_accepted", fmt.Sprintf("sig-bit-%d/%s", bit, id), c.srv, mut(func(p *Proof) { p.Proof.Signature = base64.StdEncoding.EncodeToString(s) }), dom)
		}
	}
	for _, s := range [][]byte{sig[:63], sig[:32], sig[32:], sig[:1], {}, append(append([]byte{}, sig...), 0), append(append([]byte{}, sig...), sig...), make([]byte, 64), append(append([]byte{}, sig[32:]...), sig[:32]...)} {
		c.reject("rc_signature_malformed_accepted", fmt.Sprintf("sig-len-%d/%s", len(s), id), c.srv, mut(func(p *Proof) { p.Proof.Signature = base64.StdEncoding.EncodeToString(s) }), dom)
	}
	for _, s := range []string{"!!!not base64!!!", base.Proof.Signature[:len(base.Proof.Signature)-1], base.Proof.Signature + "=", hex.EncodeToString(sig), "\x00", strings.Repeat("A", 85)} {
		c.reject("rc_signature_malformed_accepted", fmt.Sprintf("sig-text %q/%s", s, id), c.srv, mut(func(p *Proof) { p.Proof.Signature = s }), dom)
	}
	specMsg := c19Message(int32(w.wc), w.addr.Address[:], dom, ts, payload, c19MsgVariant{})
	for name, k := range map[string]ed25519.PrivateKey{"stranger": stranger, "other-wallet": other.priv} {
		c.reject("rc_other_key_signature_accepted", "sig-by-"+name+"/"+id, c.srv, mut(func(p *Proof) { p.Proof.Signature = base64.StdEncoding.EncodeToString(ed25519.Sign(k, specMsg)) }), dom)
	}

	// the right key signs something that is not the specified message (incl. a wrong domain length field)
	variants := map[string]c19MsgVariant{
		"item-prefix-v1":      {itemPrefix: "ton-proof-item-v1/"},
		"item-prefix-noslash": {itemPrefix: "ton-proof-item-v2"},
		"connect-prefix":      {connectPrefix: "ton-connect/"},
		"no-ffff":             {noFFFF: true},
		"wc-little-endian":    {wcLE: true},
		"ts-big-endian":       {tsBE: true},
		"domain-len-be":       {dlBE: true},
		"domain-len+1":        {dlDelta: 1},
		"domain-len-1":        {dlDelta: -1},
		"domain-len+256":      {dlDelta: 256},
		"domain-len-8bit":     {dl8: true},
		"no-inner-hash":       {noInnerHash: true},
		"no-outer-hash":       {noOuterHash: true},
		"payload-raw-bytes":   {payloadRaw: true},
	}
	for name, v := range variants {
		if name == "wc-little-endian" && (w.wc == 0 || w.wc == -1) {
			continue // palindromic
		}
		vp := c19SpecProof(w.addr, w.priv, w.siB64, dom, ts, payload, v)
		c.reject("rc_nonspec_message_accepted_"+strings.NewReplacer("-", "_", "+", "plus_").Replace(name), "signed-"+name+"/"+id, c.srv, vp, dom)
	}
	// signature over the message of other field values (what the substitutions above look like from the signer's side)
	c.reject("rc_nonspec_message_accepted", "signed-for-other-address/"+id, c.srv, mut(func(p *Proof) {
		p.Proof.Signature = c19SpecProof(other.addr, w.priv, "", dom, ts, payload, c19MsgVariant{}).Proof.Signature
	}), dom)
}

// stateInits: the key has to come from the state-init (get-method fails) and the state-init is not acceptable.
func (c *c19Ctx) stateInits(byVer map[wallet.Version][]*c19Wallet, payloads []string, stranger ed25519.PrivateKey) {
	ts := c.now.Add(-50 * time.Second).Unix()
	dom := "web"
	payload := payloads[1]
	attacker := stranger
	attackerPub := attacker.Public().(ed25519.PublicKey)
	failing := []struct {
		name string
		fn   func(acc ton.AccountID) (uint32, tlb.VmStack, error)
	}{
		{"getter_error", func(acc ton.AccountID) (uint32, tlb.VmStack, error) { return 0, nil, errors.New("c19: not found") }},
		{"getter_exit11", func(acc ton.AccountID) (uint32, tlb.VmStack, error) { return 11, tlb.VmStack{}, nil }},
	}
	for _, ex := range failing {
		c.ex.fn = ex.fn
		for _, ver := range c19Versions {
			w, other := byVer[ver][0], byVer[ver][2]
			id := ex.name + "/" + w.name

			// state-init of another key: does not hash to the address
			c.reject("rc_stateinit_other_key_accepted", "si-other-key-signed-by-owner/"+id, c.srv, c19SpecProof(w.addr, w.priv, other.siB64, dom, ts, payload, c19MsgVariant{}), dom)
			c.reject("rc_stateinit_other_key_accepted", "si-other-key-signed-by-other/"+id, c.srv, c19SpecProof(w.addr, other.priv, other.siB64, dom, ts, payload, c19MsgVariant{}), dom)

			// the attacker's own data under the victim's address
			code := wallet.GetCodeByVer(ver)
			data := &w.si.Data.Value.Value
			evilData := c19BitsCell(strings.Replace(c19CellBits(data), c19BytesBits(w.pub), c19BytesBits(attackerPub), 1))
			evil := c19RawStateInit(code, evilData)
			c.reject("rc_stateinit_other_key_accepted", "si-attacker-data-victim-address/"+id, c.srv, c19SpecProof(w.addr, attacker, c19CellB64(evil), dom, ts, payload, c19MsgVariant{}), dom)
			// ... whereas under its own address it is simply the attacker's wallet (sanity of the hand-built cell)
			c.accept("si-handbuilt-own-address/"+id, c.srv, c19SpecProof(c19AddrOf(evil, 0), attacker, c19CellB64(evil), dom, ts, payload, c19MsgVariant{}), dom, attackerPub)

			// missing code / data: the address is the hash of the supplied state-init, signed by the attacker
			for name, si := range map[string]*boc.Cell{
				"no-code":         c19RawStateInit(nil, evilData),
				"no-data":         c19RawStateInit(code, nil),
				"neither":         c19RawStateInit(nil, nil),
				"code-in-data":    c19RawStateInit(nil, code),
				"data-as-code":    c19RawStateInit(evilData, evilData),
				"empty-data-cell": c19RawStateInit(code, boc.NewCell()),
			} {
				cause := "rc_stateinit_missing_code_or_data"
				switch name {
				case "data-as-code":
					cause = "rc_stateinit_unknown_code_accepted"
				case "empty-data-cell":
					cause = "rc_stateinit_short_data_accepted"
				}
				for _, signer := range []ed25519.PrivateKey{attacker, w.priv} {
					c.reject(cause, "si-"+name+"/"+id, c.srv, c19SpecProof(c19AddrOf(si, int32(w.wc)), signer, c19CellB64(si), dom, ts, payload, c19MsgVariant{}), dom)
				}
				// zero-length / all-zero "signatures" must not slip through with a missing key either
				for _, sg := range []string{"", base64.StdEncoding.EncodeToString(make([]byte, 64))} {
					p := c19SpecProof(c19AddrOf(si, int32(w.wc)), attacker, c19CellB64(si), dom, ts, payload, c19MsgVariant{})
					p.Proof.Signature = sg
					c.reject(cause, "si-"+name+"-sig-"+strconv.Itoa(len(sg))+"/"+id, c.srv, p, dom)
				}
			}
		}

		// unknown code: address = hash(state-init), the signer holds the key in the data, but the code is no wallet
		for i := 0; i < 6; i++ {
			codeBytes := make([]byte, 1+c.rng.Intn(100))
			c.rng.Read(codeBytes)
			code := boc.NewCell()
			_ = code.WriteBytes(codeBytes)
			if i%2 == 1 {
				_ = code.AddRef(wallet.GetCodeByVer(wallet.V4R2)) // the real wallet code is only a child
			}
			for _, off := range []int{32, 64, 65, 113} {
				data := c19BitsCell(strings.Repeat("0", off) + c19BytesBits(attackerPub) + "0")
				si := c19RawStateInit(code, data)
				c.reject("rc_stateinit_unknown_code_accepted", fmt.Sprintf("si-random-code-%d-off-%d/%s", i, off, ex.name), c.srv, c19SpecProof(c19AddrOf(si, 0), attacker, c19CellB64(si), dom, ts, payload, c19MsgVariant{}), dom)
			}
		}
		// wallets the wallet package can build but tonconnect does not know
		for _, ver := range []wallet.Version{wallet.HighLoadV2R2} {
			w, err := c19MakeWallet(ver, attacker, 0, nil, nil)
			if err != nil {
				continue
			}
			c.reject("rc_stateinit_unknown_code_accepted", "si-"+ver.ToString()+"/"+ex.name, c.srv, c19SpecProof(w.addr, attacker, w.siB64, dom, ts, payload, c19MsgVariant{}), dom)
		}
		for _, ver := range []wallet.Version{wallet.HighLoadV1R1, wallet.HighLoadV1R2, wallet.HighLoadV2, wallet.HighLoadV2R1} {
			data := c19BitsCell(strings.Repeat("0", 64) + c19BytesBits(attackerPub) + "0")
			si := c19RawStateInit(wallet.GetCodeByVer(ver), data)
			c.reject("rc_stateinit_unknown_code_accepted", "si-"+ver.ToString()+"/"+ex.name, c.srv, c19SpecProof(c19AddrOf(si, 0), attacker, c19CellB64(si), dom, ts, payload, c19MsgVariant{}), dom)
		}

		// malformed state-init text, under the address of a real wallet, signed by its owner
		w := byVer[wallet.V4R2][0]
		raw, _ := base64.StdEncoding.DecodeString(w.siB64)
		garbage := make([]byte, 80)
		c.rng.Read(garbage)
		texts := map[string]string{
			"not-base64":      "***",
			"base64url":       strings.NewReplacer("+", "-", "/", "_").Replace(w.siB64) + "-_",
			"hex":             hex.EncodeToString(raw),
			"garbage":         base64.StdEncoding.EncodeToString(garbage),
			"magic-only":      base64.StdEncoding.EncodeToString(raw[:4]),
			"one-byte":        "AA==",
			"trailing-junk":   base64.StdEncoding.EncodeToString(append(append([]byte{}, raw...), 1, 2, 3)),
			"multi-root-0-1":  c19MultiRoot(raw, []int{0, 1}),
			"multi-root-0-0":  c19MultiRoot(raw, []int{0, 0}),
			"multi-root-1-0":  c19MultiRoot(raw, []int{1, 0}),
			"zero-roots":      c19MultiRoot(raw, nil),
			"root-is-child":   c19MultiRoot(raw, []int{1}),
			"root-out-of-rng": c19MultiRoot(raw, []int{200}),
		}
		for name, s := range texts {
			if s == "" {
				continue
			}
			cause := "rc_stateinit_malformed_accepted"
			if strings.Contains(name, "root") {
				cause = "rc_stateinit_multiroot_accepted"
			}
			c.reject(cause, "si-"+name+"/"+ex.name, c.srv, c19SpecProof(w.addr, w.priv, s, dom, ts, payload, c19MsgVariant{}), dom)
		}
		stepT := 16
		if c19Thorough() {
			stepT = 1
		}
		for n := 0; n < len(raw); n += stepT {
			c.reject("rc_stateinit_truncated_accepted", fmt.Sprintf("si-truncated-%d/%s", n, ex.name), c.srv, c19SpecProof(w.addr, w.priv, base64.StdEncoding.EncodeToString(raw[:n]), dom, ts, payload, c19MsgVariant{}), dom)
		}

		// lockup wallet: its code hash is in knownHashes. Its data is seqno:32 subwallet:32 public_key:256
		// config_public_key:256 allowed_destinations:dict total_locked:Grams locked:dict total_restricted:Grams
		// restricted:dict.  Nobody signs with the owner's key below.
		victim := byVer[wallet.V3R2][0]
		lockData := c19BitsCell(strings.Repeat("0", 32) + fmt.Sprintf("%032b", uint32(wallet.DefaultSubWallet)) + c19BytesBits(victim.pub) + c19BytesBits(attackerPub) + "0" + "0000" + "0" + "0000" + "0")
		lockSI := c19RawStateInit(wallet.GetCodeByVer(wallet.V3R2Lockup), lockData)
		lockAddr := c19AddrOf(lockSI, 0)
		c.reject("rc_stateinit_lockup_stranger_accepted", "lockup-signed-by-stranger/"+ex.name, c.srv, c19SpecProof(lockAddr, attacker, c19CellB64(lockSI), dom, ts, payload, c19MsgVariant{}), dom)
		// if the owner signs, the proof is either accepted with the owner's key or refused (unsupported wallet)
		{
			p := c19SpecProof(lockAddr, victim.priv, c19CellB64(lockSI), dom, ts, payload, c19MsgVariant{})
			c.st.add("lockup-owner|" + ex.name + c19ProofJSON(p))
			r := c.check(c.srv, p, dom)
			if r.bad != "" {
				c.f.add("rc_panic_checkproof_lockup_owner", "lockup wallet: CheckProof %s; proof=%s", r.bad, c19ProofJSON(p))
			} else if r.ok && string(r.key) == string(make([]byte, 32)) {
				c.f.add("rc_stateinit_lockup_version_yields_zero_key", "lockup wallet signed by its owner %x: accepted with the all-zero key; proof=%s", []byte(victim.pub), c19ProofJSON(p))
			} else if r.ok && !victim.pub.Equal(r.key) {
				c.f.add("rc_wrong_key_returned_lockup_owner", "lockup wallet signed by its owner %x: accepted with key %x; proof=%s", []byte(victim.pub), []byte(r.key), c19ProofJSON(p))
			} else if !r.ok && r.err == nil {
				c.f.add("rc_reject_without_error_lockup_owner", "lockup wallet: (false, _, nil); proof=%s", c19ProofJSON(p))
			}
		}
		// forged signature for the all-zero public key (a point of order 4): no private key involved at all
		msg := c19Message(0, lockAddr.Address[:], dom, ts, payload, c19MsgVariant{})
		if sig := c19ForgeZeroKeySig(c.rng, msg); sig != nil {
			p := c19SpecProof(lockAddr, attacker, c19CellB64(lockSI), dom, ts, payload, c19MsgVariant{})
			p.Proof.Signature = base64.StdEncoding.EncodeToString(sig)
			c.reject("rc_stateinit_lockup_version_yields_zero_key", "lockup-forged-zero-key-signature/"+ex.name, c.srv, p, dom)
		}
	}
}

// c19MultiRoot rewrites the header of a BOC without index and CRC so that it lists the given roots.
// serialized_boc#b5ee9c72 has_idx:1 has_crc32c:1 has_cache_bits:1 flags:2 size:3 off_bytes:8 cells:size roots:size
// absent:size tot_cells_size:off_bytes root_list:(roots*size) cell_data
func c19MultiRoot(raw []byte, roots []int) string {
	if len(raw) < 6 || raw[4]&0xe0 != 0 {
		return ""
	}
	size, off := int(raw[4]&7), int(raw[5])
	if size != 1 || len(raw) < 6+3*size+off+size {
		return ""
	}
	oldRoots := int(raw[6+size])
	out := append([]byte{}, raw[:6+size]...)
	out = append(out, byte(len(roots)))
	out = append(out, raw[6+2*size:6+3*size+off]...)
	for _, r := range roots {
		out = append(out, byte(r))
	}
	out = append(out, raw[6+3*size+off+oldRoots*size:]...)
	return base64.StdEncoding.EncodeToString(out)
}

// c19ForgeZeroKeySig returns a signature (R = r*B, S = r) that ed25519.Verify accepts for the all-zero public key A
// whenever sha512(R ++ A ++ msg) * A is the identity (A = (sqrt(-1), 0) has order 4, so one try in four works).
func c19ForgeZeroKeySig(rng *rand.Rand, msg []byte) []byte {
	order, _ := new(big.Int).SetString("27742317777372353535851937790883648493", 10)
	order.Add(order, new(big.Int).Lsh(big.NewInt(1), 252))
	zero := make([]byte, 32)
	rev := func(b []byte) []byte {
		o := make([]byte, len(b))
		for i := range b {
			o[len(b)-1-i] = b[i]
		}
		return o
	}
	for i := 0; i < 400; i++ {
		seed := make([]byte, 32)
		rng.Read(seed)
		R := ed25519.NewKeyFromSeed(seed).Public().(ed25519.PublicKey)
		h := sha512.Sum512(seed)
		s := h[:32]
		s[0] &= 248
		s[31] &= 63
		s[31] |= 64
		S := new(big.Int).SetBytes(rev(s))
		S.Mod(S, order)
		sig := append(append([]byte{}, R...), rev(S.FillBytes(make([]byte, 32)))...)
		ok := false
		if c19Guard(func() { ok = ed25519.Verify(zero, msg, sig) }) == "" && ok {
			return sig
		}
	}
	return nil
}

// expiry: proof timestamps around the lifetime boundary, and proofs over unacceptable payloads.
func (c *c19Ctx) expiry(byVer map[wallet.Version][]*c19Wallet, payloads []string, secret string) {
	dom := "example.com"
	short := c.newServer(secret, WithLifeTimeProof(10), WithLifeTimePayload(300))
	if short == nil {
		return
	}
	for _, src := range []string{"state-init", "get-method"} {
		for _, ver := range c19Versions {
			w := byVer[ver][0]
			if src == "state-init" {
				c.ex.fn = func(acc ton.AccountID) (uint32, tlb.VmStack, error) { return 0, nil, errors.New("c19: not found") }
			} else {
				c.ex.fn = func(acc ton.AccountID) (uint32, tlb.VmStack, error) { return 0, tlb.VmStack{c19IntValue(w.pub)}, nil }
			}
			id := src + "/" + w.name
			now := time.Now().Unix()
			mk := func(ts int64, payload string) *Proof {
				return c19SpecProof(w.addr, w.priv, w.siB64, dom, ts, payload, c19MsgVariant{})
			}
			// default lifetime 300 s (a few seconds of slack for the run time of the test itself)
			for _, age := range []int64{0, 1, 100, 290, 296} {
				c.accept(fmt.Sprintf("age-%d/%s", age, id), c.srv, mk(now-age, payloads[0]), dom, w.pub)
			}
			for _, age := range []int64{302, 303, 400, 3600, 86400 * 365} {
				c.reject("rc_proof_expired_accepted", fmt.Sprintf("age-%d/%s", age, id), c.srv, mk(now-age, payloads[0]), dom)
			}
			for _, ts := range []int64{0, 1, -1, math.MinInt64, math.MinInt64 + 1, -now} {
				c.reject("rc_proof_expired_accepted", fmt.Sprintf("ts=%d/%s", ts, id), c.srv, mk(ts, payloads[0]), dom)
			}
			// far future (much more than a lifetime ahead of the server's clock): the property only demands that EXPIRED
			// proofs are rejected, so an accepted one is informational
			for _, ts := range []int64{now + 3000, now + 86400, now + 86400*365*10, 1 << 40, math.MaxInt64, math.MaxInt64 - 1, 1 << 62} {
				c.observe("future_timestamp_accepted", fmt.Sprintf("future ts=%d (now %d)/%s", ts, now, id), c.srv, mk(ts, payloads[0]), dom)
			}
			// lifetime 10 s
			for _, age := range []int64{0, 5, 7} {
				c.accept(fmt.Sprintf("short-age-%d/%s", age, id), short, mk(now-age, payloads[0]), dom, w.pub)
			}
			for _, age := range []int64{12, 13, 100, 299} {
				c.reject("rc_proof_expired_accepted", fmt.Sprintf("short-age-%d/%s", age, id), short, mk(now-age, payloads[0]), dom)
			}
			// payloads the server must not accept, in otherwise perfectly signed proofs
			good := payloads[0]
			raw, _ := hex.DecodeString(good)
			bad := map[string]string{
				"other-secret":   c19CraftPayload(secret+"x", [8]byte{1, 2, 3}, now),
				"empty-secret":   c19CraftPayload("", [8]byte{1, 2, 3}, now),
				"expired":        c19CraftPayload(secret, [8]byte{9}, now-302),
				"expired-long":   c19CraftPayload(secret, [8]byte{9}, 0),
				"empty":          "",
				"short":          good[:62],
				"long":           good + "00",
				"half":           good[:32],
				"odd":            good[:63],
				"not-hex":        "zz" + good[2:],
				"base64":         base64.StdEncoding.EncodeToString(raw),
				"mac-flipped":    hex.EncodeToString(append(append([]byte{}, raw[:31]...), raw[31]^1)),
				"nonce-flipped":  hex.EncodeToString(append([]byte{raw[0] ^ 1}, raw[1:]...)),
				"zero":           strings.Repeat("0", 64),
				"prefix-of-good": good[:32] + strings.Repeat("0", 32),
			}
			for name, pl := range bad {
				cause := "rc_proof_payload_malformed_accepted"
				switch {
				case strings.HasSuffix(name, "-secret"):
					cause = "rc_proof_payload_other_secret_accepted"
				case strings.HasPrefix(name, "expired"):
					cause = "rc_proof_payload_expired_accepted"
				}
				c.reject(cause, "payload-"+name+"/"+id, c.srv, mk(now-5, pl), dom)
			}
		}
	}
}

func (c *c19Ctx) checkPayload(srv *Server, payload string) (ok bool, err error, bad string) {
	bad = c19Guard(func() { ok, err = srv.CheckPayload(payload) })
	if bad != "" {
		c.f.add("rc_panic_checkpayload", "CheckPayload(%q) with secret %q: %s", payload, srv.GetSecret(), bad)
	}
	return
}

func (c *c19Ctx) payloadOK(kind string, srv *Server, payload string) {
	c.st.add("payload|" + kind + "|" + srv.GetSecret() + "|" + payload)
	ok, err, bad := c.checkPayload(srv, payload)
	if bad == "" && (!ok || err != nil) {
		c.f.add("rc_payload_fresh_rejected", "%s: CheckPayload(%q) = (%v, %v) with secret %q, want accepted", kind, payload, ok, err, srv.GetSecret())
	}
}

func (c *c19Ctx) payloadBad(cause, kind string, srv *Server, payload string) {
	c.st.add("payload|" + kind + "|" + srv.GetSecret() + "|" + payload)
	ok, err, bad := c.checkPayload(srv, payload)
	if bad != "" {
		return
	}
	if ok {
		c.f.add(cause, "%s: CheckPayload(%q) = (true, %v) with secret %q, want rejected", kind, payload, err, srv.GetSecret())
	} else if err == nil {
		c.f.add("rc_reject_without_error_"+strings.TrimPrefix(cause, "rc_"), "%s: CheckPayload(%q) = (false, nil)", kind, payload)
	}
}

func (c *c19Ctx) payloadChecks(secret string) {
	mkSrv := func(secret string, opts ...Option) *Server {
		s := c.newServer(secret, opts...)
		if s == nil {
			panic("c19: NewTonConnect refused (recorded under rc_new_server_failed)")
		}
		return s
	}
	secrets := []string{secret, "", "another secret", strings.Repeat("k", 200)}
	var servers []*Server
	for _, s := range secrets {
		servers = append(servers, mkSrv(s))
	}
	n := 8
	if c19Thorough() {
		n = 64
	}
	seen := map[string]bool{}
	for si, srv := range servers {
		for i := 0; i < n; i++ {
			p := c.payload(srv)
			raw, err := hex.DecodeString(p)
			if err != nil || len(raw) != 32 {
				c.f.add("rc_payload_format", "GeneratePayload() = %q: not 32 bytes of hex", p)
				continue
			}
			if seen[p] {
				c.f.add("rc_payload_repeated", "GeneratePayload() repeated %q", p)
			}
			seen[p] = true
			// the format of the mechanism: hmac_sha256(secret, first 16 bytes)[:16], timestamp close to now
			var nonce [8]byte
			copy(nonce[:], raw[:8])
			tsv := int64(binary.BigEndian.Uint64(raw[8:16]))
			if want := c19CraftPayload(secrets[si], nonce, tsv); want != p {
				c.f.add("rc_payload_format", "GeneratePayload() = %s, the mechanism gives %s for the same nonce and time", p, want)
			}
			if d := tsv - time.Now().Unix(); d < -5 || d > 305 {
				c.f.add("rc_payload_time", "GeneratePayload() = %s carries time %d, now is %d", p, tsv, time.Now().Unix())
			}
			c.payloadOK("fresh", srv, p)
			for sj, other := range servers {
				if sj != si {
					c.payloadBad("rc_payload_other_secret_accepted", "other-secret", other, p)
				}
			}
			if i < 2 || c19Thorough() {
				for b := 0; b < 32; b++ {
					for _, m := range []byte{0x01, 0x80} {
						t2 := append([]byte{}, raw...)
						t2[b] ^= m
						c.payloadBad("rc_payload_tampered_accepted", fmt.Sprintf("byte-%d-xor-%02x", b, m), srv, hex.EncodeToString(t2))
					}
				}
				for _, l := range []int{0, 1, 15, 16, 17, 31, 33, 48, 64} {
					t2 := make([]byte, l)
					copy(t2, raw)
					c.payloadBad("rc_payload_malformed_accepted", fmt.Sprintf("len-%d", l), srv, hex.EncodeToString(t2))
				}
				for name, s := range map[string]string{
					"odd": p[:63], "not-hex": "g" + p[1:], "base64": base64.StdEncoding.EncodeToString(raw), "space": " " + p,
					"0x": "0x" + p, "newline": p + "\n", "nul": p[:62] + "\x00\x00", "unicode": "é" + p[2:],
				} {
					c.payloadBad("rc_payload_malformed_accepted", name, srv, s)
				}
			}
		}
		// crafted timestamps around the boundary of the default lifetime (300 s)
		now := time.Now().Unix()
		for _, age := range []int64{0, 1, 150, 290, 296} {
			c.payloadOK(fmt.Sprintf("crafted-age-%d", age), srv, c19CraftPayload(secrets[si], [8]byte{byte(age)}, now-age))
		}
		for _, age := range []int64{302, 303, 600, 86400} {
			c.payloadBad("rc_payload_expired_accepted", fmt.Sprintf("crafted-age-%d", age), srv, c19CraftPayload(secrets[si], [8]byte{byte(age)}, now-age))
		}
		for _, tsv := range []int64{0, 1, -1, math.MinInt64} {
			c.payloadBad("rc_payload_expired_accepted", fmt.Sprintf("crafted-ts-%d", tsv), srv, c19CraftPayload(secrets[si], [8]byte{7}, tsv))
		}
	}
	// custom lifetimes, crafted
	for _, life := range []int64{2, 10, 3600} {
		srv := mkSrv(secret, WithLifeTimePayload(life))
		now := time.Now().Unix()
		c.payloadOK(fmt.Sprintf("life-%d-fresh", life), srv, c.payload(srv))
		if life >= 10 {
			c.payloadOK(fmt.Sprintf("life-%d-age-%d", life, life-4), srv, c19CraftPayload(secret, [8]byte{1}, now-(life-4)))
		}
		c.payloadBad("rc_payload_expired_accepted", fmt.Sprintf("life-%d-age-%d", life, life+2), srv, c19CraftPayload(secret, [8]byte{1}, now-(life+2)))
	}
	// a negative lifetime: nothing is ever fresh
	for _, life := range []int64{-1, -300} {
		srv := mkSrv(secret, WithLifeTimePayload(life))
		c.payloadBad("rc_payload_expired_accepted", fmt.Sprintf("life-%d-fresh", life), srv, c.payload(srv))
	}
	// real time: lifetime 1 s
	{
		srv := mkSrv(secret, WithLifeTimePayload(1))
		// the payload carries whole seconds: start early in a second so that "immediately" is inside the lifetime
		if ns := time.Now().Nanosecond(); ns > 400_000_000 {
			time.Sleep(time.Duration(1_000_000_000-ns) + 10*time.Millisecond)
		}
		p := c.payload(srv)
		c.payloadOK("life-1-immediately", srv, p)
		time.Sleep(2200 * time.Millisecond)
		c.payloadBad("rc_payload_expired_accepted", "life-1-after-2.2s", srv, p)
	}
}

// parseStateInit: direct calls.
func (c *c19Ctx) parseStateInit(wallets []*c19Wallet, byVer map[wallet.Version][]*c19Wallet, keys []ed25519.PrivateKey) {
	call := func(kind, s string) (key []byte, err error, bad string) {
		c.st.add("psi|" + s)
		bad = c19Guard(func() { key, err = ParseStateInit(s) })
		if bad != "" {
			c.f.add("rc_panic_parsestateinit_"+c19Group(kind), "%s: ParseStateInit %s; state-init=%q", kind, bad, s)
			return
		}
		if err == nil && len(key) != 32 {
			c.f.add("rc_parsestateinit_bad_keylen_"+c19Group(kind), "%s: ParseStateInit = (%x, nil): %d bytes; state-init=%q", kind, key, len(key), s)
		}
		if err != nil && key != nil {
			c.f.add("rc_parsestateinit_key_with_error_"+c19Group(kind), "%s: ParseStateInit = (%x, %v): key together with an error; state-init=%q", kind, key, err, s)
		}
		return
	}
	wantKey := func(kind, s string, want []byte) {
		key, err, bad := call(kind, s)
		if bad == "" && (err != nil || string(key) != string(want)) {
			cause := "rc_parsestateinit_wrong_key"
			if g := c19Group(kind); g != "valid" {
				cause += "_" + g
			}
			c.f.add(cause, "%s: ParseStateInit = (%x, %v), want key %x; state-init=%q", kind, key, err, want, s)
		}
	}
	wantErr := func(cause, kind, s string) {
		key, err, bad := call(kind, s)
		if bad == "" && err == nil {
			c.f.add(cause, "%s: ParseStateInit = (%x, nil), want an error; state-init=%q", kind, key, s)
		}
	}

	// valid state-inits: all wallets, plus sub-wallet ids and network ids
	for _, w := range wallets {
		wantKey("valid/"+w.name, w.siB64, w.pub)
		// the same cell serialised with index / CRC / cache bits
		cell := boc.NewCell()
		if err := tlb.Marshal(cell, w.si); err == nil {
			for opt := 1; opt < 8; opt++ {
				if s, err := cell.ToBocBase64Custom(opt&1 != 0, opt&2 != 0, opt&4 != 0, 0); err == nil {
					wantKey(fmt.Sprintf("valid-bocopt-%d/%s", opt, w.name), s, w.pub)
				}
			}
		}
	}
	for _, ver := range c19Versions {
		for i, k := range keys {
			sub := uint32(c.rng.Int63())
			net := int32(-3)
			if i%2 == 0 {
				net = -239
			}
			w, err := c19MakeWallet(ver, k, 0, &sub, &net)
			if err != nil {
				c.f.add("rc_oracle_wallet_package", "oracle: %v", err)
				continue
			}
			wantKey(fmt.Sprintf("valid-sub-%d-net-%d/%s", sub, net, w.name), w.siB64, w.pub)
		}
	}

	// data cells cut at every bit length, and hand-built state-init cells
	for _, ver := range c19Versions {
		w := byVer[ver][0]
		code := wallet.GetCodeByVer(ver)
		bits := c19CellBits(&w.si.Data.Value.Value)
		off := c19KeyOffset(ver)
		if off < 0 || len(bits) < off+256 || bits[off:off+256] != c19BytesBits(w.pub) {
			c.f.add("rc_oracle_wallet_package", "oracle: the data cell of %s (%d bits) does not carry the key at bit %d", w.name, len(bits), off)
			continue
		}
		wantKey("handbuilt/"+w.name, c19CellB64(c19RawStateInit(code, c19BitsCell(bits))), w.pub)
		for n := 0; n <= len(bits); n++ {
			s := c19CellB64(c19RawStateInit(code, c19BitsCell(bits[:n])))
			switch {
			case n < off+256:
				wantErr("rc_parsestateinit_short_data_accepted", fmt.Sprintf("data-%d-of-%d-bits/%s", n, len(bits), w.name), s)
			case n == len(bits):
				wantKey(fmt.Sprintf("data-full/%s", w.name), s, w.pub)
			default:
				// key present, trailing fields cut: a value (then the right one) or an error
				key, err, bad := call(fmt.Sprintf("data-%d-of-%d-bits/%s", n, len(bits), w.name), s)
				if bad == "" && err == nil && string(key) != string(w.pub) {
					c.f.add("rc_parsestateinit_wrong_key_cut_data", "data cut to %d bits of %s: key %x, want %x or an error; state-init=%q", n, w.name, key, []byte(w.pub), s)
				}
			}
		}
		// longer data than needed is fine (wallets with plugins / extensions); here: extra ref and bits after the key
		extra := c19BitsCell(bits)
		_ = extra.AddRef(boc.NewCell())
		call("data-extra-ref/"+w.name, c19CellB64(c19RawStateInit(code, extra)))
		data := c19BitsCell(bits)
		wantErr("rc_stateinit_missing_code_or_data", "code-only/"+w.name, c19CellB64(c19RawStateInit(code, nil)))
		wantErr("rc_stateinit_missing_code_or_data", "data-only/"+w.name, c19CellB64(c19RawStateInit(nil, data)))
		wantErr("rc_stateinit_missing_code_or_data", "code-as-data-only/"+w.name, c19CellB64(c19RawStateInit(nil, code)))
		wantErr("rc_stateinit_unknown_code_accepted", "data-as-code/"+w.name, c19CellB64(c19RawStateInit(data, data)))
		wantErr("rc_stateinit_unknown_code_accepted", "code-and-data-swapped/"+w.name, c19CellB64(c19RawStateInit(data, code)))
		// not a state-init at all: the bare code cell, the bare data cell
		call("bare-code/"+w.name, c19CellB64(code))
		wantErr("rc_stateinit_malformed_accepted", "bare-data/"+w.name, c19CellB64(data))
		// multi-root
		raw, _ := base64.StdEncoding.DecodeString(w.siB64)
		for _, roots := range [][]int{{0, 1}, {0, 0}, {1, 0}, {}, {0, 1, 2}} {
			if s := c19MultiRoot(raw, roots); s != "" {
				wantErr("rc_stateinit_multiroot_accepted", fmt.Sprintf("multi-root-%v/%s", roots, w.name), s)
			}
		}
	}
	wantErr("rc_stateinit_missing_code_or_data", "neither", c19CellB64(c19RawStateInit(nil, nil)))
	wantErr("rc_stateinit_malformed_accepted", "empty-cell", c19CellB64(boc.NewCell()))
	wantErr("rc_stateinit_malformed_accepted", "empty-string", "")
	wantErr("rc_stateinit_malformed_accepted", "not-base64", "$$$")
	wantErr("rc_stateinit_malformed_accepted", "one-zero-byte", "AA==")

	// lockup wallet (known code hash): the owner's key or an error, never something else
	{
		owner, config := byVer[wallet.V3R2][0].pub, byVer[wallet.V3R2][2].pub
		data := c19BitsCell(strings.Repeat("0", 64) + c19BytesBits(owner) + c19BytesBits(config) + "0" + "0000" + "0" + "0000" + "0")
		s := c19CellB64(c19RawStateInit(wallet.GetCodeByVer(wallet.V3R2Lockup), data))
		key, err, bad := call("lockup", s)
		if bad == "" && err == nil && string(key) == string(make([]byte, 32)) {
			c.f.add("rc_stateinit_lockup_version_yields_zero_key", "ParseStateInit of a lockup wallet (v3R2 lockup code, owner key %x) = (%x, nil): neither the owner's key nor an error; state-init=%q", []byte(owner), key, s)
		} else if bad == "" && err == nil && string(key) != string(owner) {
			c.f.add("rc_parsestateinit_wrong_key_lockup", "ParseStateInit of a lockup wallet (v3R2 lockup code, owner key %x) = (%x, nil): neither the owner's key nor an error; state-init=%q", []byte(owner), key, s)
		}
	}

	// truncations and single-byte substitutions of valid serialisations
	stepT, nVals := 4, 8
	subVers := []wallet.Version{wallet.V3R2}
	if c19Thorough() {
		stepT, nVals = 1, 256
		subVers = c19Versions
	}
	for _, ver := range c19Versions {
		w := byVer[ver][1]
		raw, _ := base64.StdEncoding.DecodeString(w.siB64)
		for n := 0; n < len(raw); n += stepT {
			s := base64.StdEncoding.EncodeToString(raw[:n])
			wantErr("rc_stateinit_truncated_accepted", fmt.Sprintf("truncated-%d-of-%d/%s", n, len(raw), w.name), s)
		}
		// the same through the base64 text
		for n := 0; n < len(w.siB64); n += stepT * 8 {
			call(fmt.Sprintf("text-truncated-%d/%s", n, w.name), w.siB64[:n])
		}
	}
	for _, ver := range subVers {
		w := byVer[ver][1]
		raw, _ := base64.StdEncoding.DecodeString(w.siB64)
		for pos := 0; pos < len(raw); pos++ {
			for j := 0; j < nVals; j++ {
				var v byte
				switch {
				case nVals == 256:
					v = byte(j)
				default:
					switch j {
					case 0:
						v = raw[pos] ^ 0x01
					case 1:
						v = raw[pos] ^ 0x80
					case 2:
						v = 0x00
					case 3:
						v = 0xff
					case 4:
						v = raw[pos] + 1
					case 5:
						v = raw[pos] - 1
					default:
						v = byte(c.rng.Intn(256))
					}
				}
				if v == raw[pos] {
					continue
				}
				m := append([]byte{}, raw...)
				m[pos] = v
				call(fmt.Sprintf("subst-%d=%02x/%s", pos, v, w.name), base64.StdEncoding.EncodeToString(m))
			}
		}
	}
}
