//go:build verif

package tonconnect

// Bounded stand-in for C19, part b (labelled bounded, never counted as proved).
// Stands in for: the LIFETIMES of server payloads and of proofs as seen through the library's own pipeline
// GeneratePayload -> CheckPayload -> CheckProof in real time, with the payload lifetime a and the proof lifetime b
// configured DIFFERENTLY (WithLifeTimePayload(a), WithLifeTimeProof(b), a != b, both orders).  c19_test.go only uses
// equal lifetimes and (for expiry) hand-made payloads.
//
// Oracle (property text: "a proof is rejected ... if the proof or payload has expired, or if the payload was not issued
// under the server's secret"; expired = older than the configured lifetime, measured from the moment of issue resp.
// from the proof's timestamp):
//   payload issued by GeneratePayload at t0, lifetime a:   CheckPayload accepts at age <= a-0.5 s, rejects (with an
//       error) at age >= a+0.5 s; in particular it does not live for 1.5, 2.x or 2.5 lifetimes;
//   proof with timestamp ts, lifetime b, over a fresh payload of this server, correctly signed by the key controlling
//       the address: accepted (with that key) when now-ts <= b-0.5 s, rejected when now-ts >= b+1 s, whatever a is;
//   proof (fresh timestamp) over a payload of this server older than a+0.5 s: rejected;
//   payload issued under another secret: rejected by CheckPayload and inside CheckProof at every age.
// Nothing is sampled closer than 0.5 s to the boundary that decides the expected verdict (every sample measures its
// real age before and after the call and is skipped when scheduling jitter moved it into the tolerance zone).  The
// payload and the proof carry whole seconds; the time lines therefore start early in a wall-clock second (fraction
// <= 0.3 s), so that "age" is the same for the test and for the stamp.  What happens to a payload issued LATE in a
// second is only logged (INFO): with a 1 s lifetime it is refused up to 1 s early (rounding, not judged).
// The proofs are signed here from the specification's message layout (no library code); every other one additionally
// through the library's own client CreateSignedProof.
//
// Bound.  Real time (TestVerifStandin_C19_LifetimesRealTime): (a,b) in {(1,2),(2,1)} (thorough: also (3,1),(1,3),(2,3)),
// one time line each, run concurrently; 4 (thorough 16) payloads of the server and 2 (4) of a server with another
// secret per time line; ages 0, 0.3a, [0.5a if a>=2], 1.5a, 2.5a (thorough: also a-0.6, a+0.6, 2a+0.6) reached by
// sleeping (sum of the time lines: 7.5 s quick, 23 s thorough; wall: the longest one, 5 s / 7.5 s); at every age
// CheckPayload on every payload and CheckProof with a fresh proof of every wallet (3 versions (thorough 11) x {key from
// get_public_key, key from state-init}) over a payload of that age and over a foreign payload.
// Crafted timestamps (TestVerifStandin_C19_LifetimesProofAges, no sleeping): (a,b) in {(1,2),(2,1),(1,3),(3,1),(2,5),
// (5,2),(default 300,2),(2,default 300)} (thorough: also (1,10),(10,1),(3,60),(60,3),(7,3600),(3600,7)) x wallets x
// proof ages k in {0, b-1, b+1, b+2, max(a,b)+2, b+3600, up to 4 integer ages strictly between a and b} (thorough:
// every integer age up to max(a,b)+3, at most 40 per pair), never k == b; fresh payloads from GeneratePayload (renewed
// every second).  For (2,1) no age lies between the lifetimes with 0.5 s to spare on both sides; that order is covered
// by (3,1), (5,2) and (300,2).

import (
	"context"
	"crypto/ed25519"
	"crypto/sha256"
	"encoding/base64"
	"encoding/json"
	"errors"
	"fmt"
	"math/big"
	"math/rand"
	"os"
	"sort"
	"strconv"
	"strings"
	"sync"
	"testing"
	"time"

	"github.com/tonkeeper/tongo/boc"
	"github.com/tonkeeper/tongo/tlb"
	"github.com/tonkeeper/tongo/ton"
	"github.com/tonkeeper/tongo/wallet"
)

// ---- harness helpers (c19b prefix: the file must compile alone and next to c19_test.go) ----

func c19bThorough() bool { return os.Getenv("VERIF_TIER") == "thorough" }

func c19bSeed() int64 {
	if s := os.Getenv("VERIF_SEED"); s != "" {
		if v, err := strconv.ParseInt(s, 10, 64); err == nil {
			return v
		}
	}
	return 1
}

type c19bStat struct {
	mu       sync.Mutex
	name     string
	cases    int
	distinct map[[12]byte]struct{}
}

func c19bNewStat(name string) *c19bStat {
	return &c19bStat{name: name, distinct: map[[12]byte]struct{}{}}
}

func (s *c19bStat) add(key string) {
	h := sha256.Sum256([]byte(key))
	var k [12]byte
	copy(k[:], h[:12])
	s.mu.Lock()
	s.cases++
	s.distinct[k] = struct{}{}
	s.mu.Unlock()
}

func (s *c19bStat) print() {
	s.mu.Lock()
	defer s.mu.Unlock()
	fmt.Printf("STANDIN-STAT name=%s cases=%d distinct=%d\n", s.name, s.cases, len(s.distinct))
}

// c19bFailures collects failures keyed by root cause; every root cause is reported in its own sub-test with a stable
// name. Known root causes are always run (so that they show PASS).
type c19bFailures struct {
	mu      sync.Mutex
	byCause map[string][]string
	count   map[string]int
	known   []string
}

func c19bNewFailures(known ...string) *c19bFailures {
	return &c19bFailures{byCause: map[string][]string{}, count: map[string]int{}, known: known}
}

func (f *c19bFailures) add(cause, format string, args ...any) {
	msg := fmt.Sprintf(format, args...)
	if len(msg) > 3000 {
		msg = msg[:3000] + "...(truncated)"
	}
	f.mu.Lock()
	defer f.mu.Unlock()
	f.count[cause]++
	if len(f.byCause[cause]) < 6 {
		f.byCause[cause] = append(f.byCause[cause], msg)
	}
}

func (f *c19bFailures) report(t *testing.T) {
	f.mu.Lock()
	defer f.mu.Unlock()
	names := map[string]bool{}
	for _, k := range f.known {
		names[k] = true
	}
	for k := range f.count {
		names[k] = true
	}
	var sorted []string
	for k := range names {
		sorted = append(sorted, k)
	}
	sort.Strings(sorted)
	for _, k := range sorted {
		k := k
		t.Run(k, func(t *testing.T) {
			if f.count[k] == 0 {
				return
			}
			t.Errorf("%d failing case(s); first %d:", f.count[k], len(f.byCause[k]))
			for _, m := range f.byCause[k] {
				t.Errorf("  %s", m)
			}
		})
	}
}

// c19bInfo: observations that are not judged (one t.Logf line per name).
type c19bInfo struct {
	mu    sync.Mutex
	count map[string]int
	first map[string]string
}

func (i *c19bInfo) add(name, format string, args ...any) {
	i.mu.Lock()
	defer i.mu.Unlock()
	if i.count[name] == 0 {
		i.first[name] = fmt.Sprintf(format, args...)
	}
	i.count[name]++
}

func (i *c19bInfo) report(t *testing.T) {
	i.mu.Lock()
	defer i.mu.Unlock()
	var names []string
	for k := range i.count {
		names = append(names, k)
	}
	sort.Strings(names)
	for _, k := range names {
		t.Logf("INFO c19b %s: %d, first: %s", k, i.count[k], i.first[k])
	}
}

// c19bGuard runs fn under a deadline and converts a panic into a message ("" = returned normally).
func c19bGuard(fn func()) string {
	done := make(chan string, 1)
	go func() {
		defer func() {
			if r := recover(); r != nil {
				done <- fmt.Sprintf("panic: %v", r)
			}
		}()
		fn()
		done <- ""
	}()
	select {
	case s := <-done:
		return s
	case <-time.After(20 * time.Second):
		return "no result after 20s (hang)"
	}
}

// ---- the specification side ----

// c19bMessage: sha256(0xffff ++ "ton-connect" ++ sha256("ton-proof-item-v2/" ++ workchain(be32) ++ address(32) ++
// domainLen(le32) ++ domain ++ timestamp(le64) ++ payload)), written from the TON Connect specification.
func c19bMessage(wc int32, addr []byte, domain string, ts int64, payload string) []byte {
	inner := []byte("ton-proof-item-v2/")
	u := uint32(wc)
	inner = append(inner, byte(u>>24), byte(u>>16), byte(u>>8), byte(u))
	inner = append(inner, addr...)
	dl := uint32(len(domain))
	inner = append(inner, byte(dl), byte(dl>>8), byte(dl>>16), byte(dl>>24))
	inner = append(inner, domain...)
	t := uint64(ts)
	for i := 0; i < 8; i++ {
		inner = append(inner, byte(t>>(8*uint(i))))
	}
	inner = append(inner, payload...)
	h := sha256.Sum256(inner)
	outer := append([]byte{0xff, 0xff}, "ton-connect"...)
	outer = append(outer, h[:]...)
	r := sha256.Sum256(outer)
	return r[:]
}

// ---- wallets and the fake get-method executor ----

type c19bWallet struct {
	name    string
	ver     wallet.Version
	priv    ed25519.PrivateKey
	pub     ed25519.PublicKey
	addr    ton.AccountID
	si      tlb.StateInit
	siB64   string
	onChain bool // get_public_key answers for this address (then the proof carries no state-init)
}

// c19bExec answers get_public_key (78748) for the registered addresses and fails for every other one. Read-only after
// construction, so one instance serves all goroutines.
type c19bExec struct {
	keys map[ton.AccountID]ed25519.PublicKey
}

func (e *c19bExec) RunSmcMethodByID(ctx context.Context, acc ton.AccountID, methodID int, params tlb.VmStack) (uint32, tlb.VmStack, error) {
	if methodID != 78748 || len(params) != 0 {
		return 0, nil, fmt.Errorf("c19b: unexpected get-method %d with %d params", methodID, len(params))
	}
	if k, ok := e.keys[acc]; ok {
		return 0, tlb.VmStack{{SumType: "VmStkInt", VmStkInt: tlb.Int257(*new(big.Int).SetBytes(k))}}, nil
	}
	return 0, nil, errors.New("c19b: account not found")
}

func c19bMakeWallet(ver wallet.Version, priv ed25519.PrivateKey, wc int, onChain bool) (*c19bWallet, error) {
	pub := priv.Public().(ed25519.PublicKey)
	si, err := wallet.GenerateStateInit(pub, ver, nil, wc, nil)
	if err != nil {
		return nil, err
	}
	cell := boc.NewCell()
	if err := tlb.Marshal(cell, si); err != nil {
		return nil, err
	}
	h, err := cell.Hash256()
	if err != nil {
		return nil, err
	}
	b64, err := cell.ToBocBase64()
	if err != nil {
		return nil, err
	}
	src := "state-init"
	if onChain {
		src = "get-method"
	}
	return &c19bWallet{
		name: fmt.Sprintf("%s/wc%d/%s/key %x", ver.ToString(), wc, src, []byte(pub[:4])), ver: ver, priv: priv, pub: pub,
		addr: ton.AccountID{Workchain: int32(wc), Address: h}, si: si, siB64: b64, onChain: onChain,
	}, nil
}

func c19bVersions() []wallet.Version {
	if c19bThorough() {
		return []wallet.Version{wallet.V1R1, wallet.V1R2, wallet.V1R3, wallet.V2R1, wallet.V2R2, wallet.V3R1, wallet.V3R2,
			wallet.V4R1, wallet.V4R2, wallet.V5Beta, wallet.V5R1}
	}
	return []wallet.Version{wallet.V3R2, wallet.V4R2, wallet.V5R1}
}

var c19bDomains = []string{"example.com", "web", "", "sub.domain.example.org:8443"}

// ---- the test context ----

type c19bCtx struct {
	st      *c19bStat
	f       *c19bFailures
	inf     *c19bInfo
	ex      *c19bExec
	wallets []*c19bWallet
	secret  string
}

func c19bNewCtx(t *testing.T, name string, known ...string) *c19bCtx {
	c := &c19bCtx{
		st:     c19bNewStat(name),
		f:      c19bNewFailures(known...),
		inf:    &c19bInfo{count: map[string]int{}, first: map[string]string{}},
		ex:     &c19bExec{keys: map[ton.AccountID]ed25519.PublicKey{}},
		secret: fmt.Sprintf("c19b-secret-%d", c19bSeed()),
	}
	rng := rand.New(rand.NewSource(c19bSeed()))
	for i, ver := range c19bVersions() {
		for j, onChain := range []bool{true, false} {
			seed := make([]byte, ed25519.SeedSize)
			rng.Read(seed)
			w, err := c19bMakeWallet(ver, ed25519.NewKeyFromSeed(seed), []int{0, -1}[(i+j)%2], onChain)
			if err != nil {
				t.Fatalf("oracle: cannot build wallet %v: %v", ver, err)
			}
			if onChain {
				c.ex.keys[w.addr] = w.pub
			}
			c.wallets = append(c.wallets, w)
		}
	}
	return c
}

func (c *c19bCtx) finish(t *testing.T) {
	c.st.print()
	c.inf.report(t)
	c.f.report(t)
}

// goSection runs fn in its own goroutine; a panic outside the guarded library calls becomes a failure of its own.
func (c *c19bCtx) goSection(wg *sync.WaitGroup, name string, fn func()) {
	wg.Add(1)
	go func() {
		defer wg.Done()
		defer func() {
			if r := recover(); r != nil {
				c.f.add("rc_section_panic", "panic outside a guarded call in %s: %v", name, r)
			}
		}()
		fn()
	}()
}

func (c *c19bCtx) newServer(secret string, a, b int64) *Server {
	var s *Server
	var err error
	var opts []Option
	if a != 0 {
		opts = append(opts, WithLifeTimePayload(a))
	}
	if b != 0 {
		opts = append(opts, WithLifeTimeProof(b))
	}
	if (a+b)%2 == 1 { // the order of the options must not matter
		for i, j := 0, len(opts)-1; i < j; i, j = i+1, j-1 {
			opts[i], opts[j] = opts[j], opts[i]
		}
	}
	bad := c19bGuard(func() { s, err = NewTonConnect(c.ex, secret, opts...) })
	if bad != "" || err != nil || s == nil {
		c.f.add("rc_new_server_failed", "NewTonConnect(executor, %q, payload lifetime %d, proof lifetime %d): %s err=%v", secret, a, b, bad, err)
		return nil
	}
	return s
}

func (c *c19bCtx) generate(srv *Server, n int) []string {
	var out []string
	for i := 0; i < n; i++ {
		var s string
		var err error
		if bad := c19bGuard(func() { s, err = srv.GeneratePayload() }); bad != "" || err != nil {
			c.f.add("rc_generate_payload_failed", "GeneratePayload (secret %q): %s err=%v", srv.GetSecret(), bad, err)
			continue
		}
		out = append(out, s)
	}
	return out
}

// makeProof: a proof signed over the specification's message; viaClient additionally demands that the library's own
// client produces the same proof (it is deterministic) and uses that one.
func (c *c19bCtx) makeProof(w *c19bWallet, dom string, ts int64, payload string, viaClient bool) *Proof {
	msg := c19bMessage(w.addr.Workchain, w.addr.Address[:], dom, ts, payload)
	p := &Proof{
		Address: fmt.Sprintf("%d:%x", w.addr.Workchain, w.addr.Address[:]),
		Proof: ProofData{
			Timestamp: ts, Domain: dom, Payload: payload, StateInit: w.siB64,
			Signature: base64.StdEncoding.EncodeToString(ed25519.Sign(w.priv, msg)),
		},
	}
	if viaClient {
		var q *Proof
		var err error
		bad := c19bGuard(func() {
			q, err = CreateSignedProof(payload, w.addr, w.priv, w.si, ProofOptions{Timestamp: time.Unix(ts, 0), Domain: dom})
		})
		if bad != "" || err != nil || q == nil {
			c.f.add("rc_create_signed_proof_failed", "CreateSignedProof(%s, domain %q, ts %d, payload %q): %s err=%v", w.name, dom, ts, payload, bad, err)
		} else if q.Proof.Signature != p.Proof.Signature || q.Proof.Timestamp != ts || q.Proof.Payload != payload {
			c.f.add("rc_create_signed_proof_failed", "CreateSignedProof(%s, domain %q, ts %d, payload %q) = %s, the specification gives %s", w.name, dom, ts, payload, c19bJSON(q), c19bJSON(p))
		} else {
			p = q
		}
	}
	if w.onChain {
		p.Proof.StateInit = "" // the key has to come from get_public_key
	}
	return p
}

func c19bJSON(p *Proof) string {
	b, _ := json.Marshal(p)
	return string(b)
}

type c19bResult struct {
	ok  bool
	key ed25519.PublicKey
	err error
	bad string
}

func (c *c19bCtx) checkProof(srv *Server, p *Proof, dom string) c19bResult {
	var r c19bResult
	q := *p
	r.bad = c19bGuard(func() {
		r.ok, r.key, r.err = srv.CheckProof(context.Background(), &q, srv.CheckPayload, StaticDomain(dom))
	})
	return r
}

func (c *c19bCtx) checkPayload(srv *Server, payload string) (ok bool, err error, bad string) {
	bad = c19bGuard(func() { ok, err = srv.CheckPayload(payload) })
	return
}

func c19bShort(cause string) string { return strings.TrimPrefix(cause, "rc_") }

// judgeProofAccepted / judgeProofRejected: the verdict on one CheckProof result; ctx describes the timing.
func (c *c19bCtx) judgeProofAccepted(cause, ctx string, r c19bResult, p *Proof, dom string, want ed25519.PublicKey) {
	switch {
	case r.bad != "":
		c.f.add("rc_panic_checkproof", "%s: CheckProof %s; domain=%q proof=%s", ctx, r.bad, dom, c19bJSON(p))
	case !r.ok || r.err != nil:
		c.f.add(cause, "%s: CheckProof = (%v, %x, %v), want accepted with key %x; domain=%q proof=%s", ctx, r.ok, []byte(r.key), r.err, []byte(want), dom, c19bJSON(p))
	case !want.Equal(r.key):
		c.f.add("rc_wrong_key_returned", "%s: CheckProof returned key %x, want %x; domain=%q proof=%s", ctx, []byte(r.key), []byte(want), dom, c19bJSON(p))
	}
}

func (c *c19bCtx) judgeProofRejected(cause, ctx string, r c19bResult, p *Proof, dom string) {
	switch {
	case r.bad != "":
		c.f.add("rc_panic_checkproof", "%s: CheckProof %s; domain=%q proof=%s", ctx, r.bad, dom, c19bJSON(p))
	case r.ok:
		c.f.add(cause, "%s: CheckProof accepted (key %x, err %v), want rejected; domain=%q proof=%s", ctx, []byte(r.key), r.err, dom, c19bJSON(p))
	case r.err == nil:
		c.f.add("rc_reject_without_error_"+c19bShort(cause), "%s: CheckProof = (false, %x, nil): rejected without an error; domain=%q proof=%s", ctx, []byte(r.key), dom, c19bJSON(p))
	}
}

func (c *c19bCtx) judgePayloadRejected(cause, ctx string, srv *Server, payload string, ok bool, err error, bad string) {
	switch {
	case bad != "":
		c.f.add("rc_panic_checkpayload", "%s: CheckPayload(%q) with secret %q: %s", ctx, payload, srv.GetSecret(), bad)
	case ok:
		c.f.add(cause, "%s: CheckPayload(%q) = (true, %v) with secret %q, want rejected", ctx, payload, err, srv.GetSecret())
	case err == nil:
		c.f.add("rc_reject_without_error_"+c19bShort(cause), "%s: CheckPayload(%q) = (false, nil): rejected without an error", ctx, payload)
	}
}

// ---- clock helpers ----

const c19bTol = 500 * time.Millisecond

func c19bFrac(t time.Time) time.Duration { return time.Duration(t.Nanosecond()) }

func c19bSleepUntil(t time.Time) {
	if d := time.Until(t); d > 0 {
		time.Sleep(d)
	}
}

// c19bAlign returns a moment whose wall-clock fraction of a second lies in [lo, hi] (sleeping into the next second when
// necessary).
func c19bAlign(lo, hi time.Duration) time.Time {
	for i := 0; i < 8; i++ {
		now := time.Now()
		if f := c19bFrac(now); f >= lo && f <= hi {
			return now
		} else if f < lo {
			time.Sleep(lo - f + time.Millisecond)
		} else {
			time.Sleep(time.Second - f + lo + 5*time.Millisecond)
		}
	}
	return time.Now()
}

func c19bSecs(d time.Duration) float64 { return float64(d) / float64(time.Second) }

// ---- real time: payloads issued by GeneratePayload, aged by sleeping ----

type c19bCfg struct{ a, b int64 }

func c19bAges(a int64) []time.Duration {
	l := float64(a)
	fr := []float64{0, 0.3 * l, 1.5 * l, 2.5 * l}
	if a >= 2 {
		fr = append(fr, 0.5*l)
	}
	if c19bThorough() {
		fr = append(fr, l+0.6, 2*l+0.6)
		if a >= 2 {
			fr = append(fr, l-0.6)
		}
	}
	sort.Float64s(fr)
	var out []time.Duration
	for _, x := range fr {
		d := time.Duration(x * float64(time.Second))
		if len(out) > 0 && d-out[len(out)-1] < 50*time.Millisecond {
			continue
		}
		out = append(out, d)
	}
	return out
}

func TestVerifStandin_C19_LifetimesRealTime(t *testing.T) {
	t.Parallel()
	c := c19bNewCtx(t, "C19_LifetimesRealTime",
		"rc_fresh_payload_rejected", "rc_payload_outlives_lifetime", "rc_payload_other_secret_accepted",
		"rc_fresh_proof_rejected", "rc_proof_over_expired_payload_accepted", "rc_proof_over_foreign_payload_accepted",
		"rc_wrong_key_returned", "rc_panic_checkpayload", "rc_panic_checkproof", "rc_generate_payload_failed",
		"rc_create_signed_proof_failed", "rc_new_server_failed", "rc_payload_repeated", "rc_timing_unusable", "rc_section_panic",
	)
	defer c.finish(t)
	cfgs := []c19bCfg{{1, 2}, {2, 1}}
	if c19bThorough() {
		cfgs = append(cfgs, c19bCfg{3, 1}, c19bCfg{1, 3}, c19bCfg{2, 3})
	}
	var wg sync.WaitGroup
	for i, cfg := range cfgs {
		i, cfg := i, cfg
		c.goSection(&wg, fmt.Sprintf("time line a=%d b=%d", cfg.a, cfg.b), func() {
			for attempt := 0; attempt < 2; attempt++ {
				acc, rej, pacc, prej := c.timeline(i, cfg)
				if acc > 0 && rej > 0 && pacc > 0 && prej > 0 {
					return
				}
				c.inf.add("timeline_repeated", "a=%d b=%d attempt %d: judged samples: %d fresh payloads, %d expired payloads, %d proofs over fresh, %d over expired payloads", cfg.a, cfg.b, attempt, acc, rej, pacc, prej)
				if attempt == 1 {
					c.f.add("rc_timing_unusable", "a=%d b=%d: after two time lines some class has no sample outside the 0.5 s tolerance (fresh payloads %d, expired payloads %d, proofs over fresh %d, proofs over expired payloads %d): machine too loaded", cfg.a, cfg.b, acc, rej, pacc, prej)
				}
			}
		})
	}
	c.goSection(&wg, "late-in-second", c.lateInSecond)
	wg.Wait()
}

// timeline: one server, payloads issued at t0 (early in a second), checked at growing ages. Returns how many samples
// were judged: fresh payloads, expired payloads, proofs over fresh payloads, proofs over expired payloads.
func (c *c19bCtx) timeline(idx int, cfg c19bCfg) (nAcc, nRej, nPAcc, nPRej int) {
	srv := c.newServer(c.secret, cfg.a, cfg.b)
	foreignSrv := c.newServer(c.secret+"/other", cfg.a, cfg.b)
	if srv == nil || foreignSrv == nil {
		return
	}
	life := time.Duration(cfg.a) * time.Second
	proofLife := time.Duration(cfg.b) * time.Second
	nOwn, nForeign := 4, 2
	if c19bThorough() {
		nOwn, nForeign = 16, 4
	}
	var t0, t1 time.Time
	var own, foreign []string
	for try := 0; try < 5; try++ {
		c19bAlign(20*time.Millisecond, 150*time.Millisecond)
		t0 = time.Now()
		own = c.generate(srv, nOwn)
		foreign = c.generate(foreignSrv, nForeign)
		t1 = time.Now()
		if c19bFrac(t0) <= 300*time.Millisecond && t1.Sub(t0) <= 100*time.Millisecond {
			break
		}
	}
	if len(own) == 0 || len(foreign) == 0 {
		return
	}
	if c19bFrac(t0) > 300*time.Millisecond || t1.Sub(t0) > 100*time.Millisecond {
		c.inf.add("timeline_start_missed", "a=%d b=%d: could not issue the payloads early in a second (%.3f s into it, took %.3f s)", cfg.a, cfg.b, c19bSecs(c19bFrac(t0)), c19bSecs(t1.Sub(t0)))
		return // nothing judged: the caller repeats the time line
	}
	seen := map[string]bool{}
	for _, p := range append(append([]string{}, own...), foreign...) {
		if seen[p] {
			c.f.add("rc_payload_repeated", "GeneratePayload repeated %q", p)
		}
		seen[p] = true
	}
	issue := fmt.Sprintf("payload lifetime %d s, proof lifetime %d s, payloads issued at %s (%.3f s into the second)", cfg.a, cfg.b, t0.Format("15:04:05.000"), c19bSecs(c19bFrac(t0)))

	for _, age := range c19bAges(cfg.a) {
		c19bSleepUntil(t1.Add(age))
		expectFresh := age < life
		// judged(before, after): is the sample outside the tolerance zone around the payload lifetime?
		judged := func(before, after time.Time) bool {
			if expectFresh {
				return after.Sub(t0) <= life-c19bTol
			}
			return before.Sub(t1) >= life+c19bTol
		}
		sample := fmt.Sprintf("age %.1f s = %.2f lifetimes", c19bSecs(age), c19bSecs(age)/float64(cfg.a))

		// CheckPayload on every payload of this server
		for _, p := range own {
			before := time.Now()
			ok, err, bad := c.checkPayload(srv, p)
			after := time.Now()
			ctx := fmt.Sprintf("%s; %s; real age %.3f s", issue, sample, c19bSecs(before.Sub(t0)))
			if bad != "" {
				c.f.add("rc_panic_checkpayload", "%s: CheckPayload(%q): %s", ctx, p, bad)
				continue
			}
			if !judged(before, after) {
				c.inf.add("sample_in_tolerance_zone", "%s: not judged", ctx)
				continue
			}
			c.st.add(fmt.Sprintf("payload|%d|%d|%v|%s", cfg.a, cfg.b, age, p))
			if expectFresh {
				nAcc++
				if !ok || err != nil {
					c.f.add("rc_fresh_payload_rejected", "%s: CheckPayload(%q) = (%v, %v), want accepted", ctx, p, ok, err)
				}
			} else {
				nRej++
				c.judgePayloadRejected("rc_payload_outlives_lifetime", ctx, srv, p, ok, err, bad)
			}
		}
		// another secret: rejected at every age, in both directions
		for _, p := range foreign {
			ok, err, bad := c.checkPayload(srv, p)
			c.st.add(fmt.Sprintf("foreign|%d|%d|%v|%s", cfg.a, cfg.b, age, p))
			c.judgePayloadRejected("rc_payload_other_secret_accepted", issue+"; "+sample+"; payload of the server with secret "+strconv.Quote(foreignSrv.GetSecret()), srv, p, ok, err, bad)
		}
		{
			p := own[len(own)-1]
			ok, err, bad := c.checkPayload(foreignSrv, p)
			c.st.add(fmt.Sprintf("foreign-rev|%d|%d|%v|%s", cfg.a, cfg.b, age, p))
			c.judgePayloadRejected("rc_payload_other_secret_accepted", issue+"; "+sample+"; payload of the server with secret "+strconv.Quote(srv.GetSecret()), foreignSrv, p, ok, err, bad)
		}

		// CheckProof with a fresh proof (timestamp = the current second) over the aged payloads. The proof itself must be
		// clearly fresh: start of a second when the proof lifetime is short.
		if now := time.Now(); proofLife-c19bFrac(now) < c19bTol+50*time.Millisecond {
			next := time.Unix(now.Unix()+1, int64(30*time.Millisecond))
			if expectFresh && next.Sub(t0) > life-c19bTol-50*time.Millisecond {
				c.inf.add("proof_sample_skipped", "%s; %s: no moment at which both the payload and a proof stamped with the current second are clearly fresh", issue, sample)
				continue
			}
			c19bSleepUntil(next)
		}
		for wi, w := range c.wallets {
			dom := c19bDomains[(wi+idx)%len(c19bDomains)]
			payload := own[wi%len(own)]
			before := time.Now()
			ts := before.Unix()
			p := c.makeProof(w, dom, ts, payload, wi%2 == 0)
			r := c.checkProof(srv, p, dom)
			after := time.Now()
			ctx := fmt.Sprintf("%s; %s; real age of the payload %.3f s, of the proof %.3f s; %s", issue, sample, c19bSecs(before.Sub(t0)), c19bSecs(before.Sub(time.Unix(ts, 0))), w.name)
			proofFresh := after.Sub(time.Unix(ts, 0)) <= proofLife-c19bTol
			if !proofFresh || !judged(before, after) {
				if r.bad != "" {
					c.f.add("rc_panic_checkproof", "%s: CheckProof %s; proof=%s", ctx, r.bad, c19bJSON(p))
				}
				c.inf.add("sample_in_tolerance_zone", "%s: proof not judged", ctx)
			} else {
				c.st.add(fmt.Sprintf("proof|%d|%d|%v|%s", cfg.a, cfg.b, age, c19bJSON(p)))
				if expectFresh {
					nPAcc++
					c.judgeProofAccepted("rc_fresh_proof_rejected", ctx, r, p, dom, w.pub)
				} else {
					nPRej++
					c.judgeProofRejected("rc_proof_over_expired_payload_accepted", ctx, r, p, dom)
				}
			}
			// the same wallet over a payload issued under the other secret
			fp := c.makeProof(w, dom, ts, foreign[wi%len(foreign)], false)
			c.st.add(fmt.Sprintf("proof-foreign|%d|%d|%v|%s", cfg.a, cfg.b, age, c19bJSON(fp)))
			c.judgeProofRejected("rc_proof_over_foreign_payload_accepted", ctx+"; payload of the server with secret "+strconv.Quote(foreignSrv.GetSecret()), c.checkProof(srv, fp, dom), fp, dom)
		}
	}
	return
}

// lateInSecond (not judged, logged): a payload with a 1 s lifetime issued 0.75 s into a second and checked 0.4 s later.
// The stamp carries whole seconds, so the library sees an age of about 1.15 s.
func (c *c19bCtx) lateInSecond() {
	srv := c.newServer(c.secret, 1, 2)
	if srv == nil {
		return
	}
	c19bAlign(720*time.Millisecond, 800*time.Millisecond)
	t0 := time.Now()
	ps := c.generate(srv, 1)
	if len(ps) == 0 {
		return
	}
	c19bSleepUntil(t0.Add(400 * time.Millisecond))
	before := time.Now()
	ok, err, bad := c.checkPayload(srv, ps[0])
	if bad != "" {
		c.f.add("rc_panic_checkpayload", "CheckPayload(%q): %s", ps[0], bad)
		return
	}
	c.st.add("late-in-second|" + ps[0])
	if f := c19bFrac(t0); f < 700*time.Millisecond || before.Sub(t0) > 500*time.Millisecond {
		return // scheduling moved the sample; nothing to say
	}
	if !ok {
		c.inf.add("payload_refused_early_by_whole_second_stamp", "payload lifetime 1 s, issued %.3f s into a second, checked at real age %.3f s: CheckPayload(%q) = (%v, %v) (the stamp carries whole seconds: up to 1 s of the lifetime is lost; not judged)", c19bSecs(c19bFrac(t0)), c19bSecs(before.Sub(t0)), ps[0], ok, err)
	}
}

// ---- crafted proof timestamps, no sleeping ----

// c19bProofAges: integer ages (now.Unix() - ts) to try for a pair; never k == b.
func c19bProofAges(a, b int64) []int64 {
	lo, hi := a, b
	if lo > hi {
		lo, hi = hi, lo
	}
	set := map[int64]bool{0: true, b - 1: true, b + 1: true, b + 2: true, hi + 2: true, b + 3600: true}
	// strictly between the lifetimes with room to the proof lifetime: a<b: k in [a, b-1] (real age in (a, b-0.5]);
	// a>b: k in [b+1, a-1] (real age in [b+1, a-0.5])
	from, to := a, b-1
	if a > b {
		from, to = b+1, a-1
	}
	if from <= to {
		for _, k := range []int64{from, from + 1, (from + to) / 2, to} {
			if k >= from && k <= to {
				set[k] = true
			}
		}
	}
	if c19bThorough() {
		n := hi + 3
		step := int64(1)
		if n > 40 {
			step = n/40 + 1
		}
		for k := int64(0); k <= n; k += step {
			set[k] = true
		}
	}
	var out []int64
	for k := range set {
		if k >= 0 && k != b {
			out = append(out, k)
		}
	}
	sort.Slice(out, func(i, j int) bool { return out[i] < out[j] })
	return out
}

func TestVerifStandin_C19_LifetimesProofAges(t *testing.T) {
	t.Parallel()
	c := c19bNewCtx(t, "C19_LifetimesProofAges",
		"rc_fresh_proof_rejected", "rc_expired_proof_accepted", "rc_proof_checked_against_payload_lifetime",
		"rc_proof_over_foreign_payload_accepted", "rc_wrong_key_returned", "rc_panic_checkproof",
		"rc_generate_payload_failed", "rc_create_signed_proof_failed", "rc_new_server_failed", "rc_timing_unusable", "rc_section_panic",
	)
	defer c.finish(t)
	// 0 = option not given: the default of 300 s
	cfgs := []c19bCfg{{1, 2}, {2, 1}, {1, 3}, {3, 1}, {2, 5}, {5, 2}, {0, 2}, {2, 0}}
	if c19bThorough() {
		cfgs = append(cfgs, c19bCfg{1, 10}, c19bCfg{10, 1}, c19bCfg{3, 60}, c19bCfg{60, 3}, c19bCfg{7, 3600}, c19bCfg{3600, 7})
	}
	var wg sync.WaitGroup
	for i, cfg := range cfgs {
		i, cfg := i, cfg
		c.goSection(&wg, fmt.Sprintf("proof ages a=%d b=%d", cfg.a, cfg.b), func() { c.proofAges(i, cfg) })
	}
	wg.Wait()
}

func (c *c19bCtx) proofAges(idx int, cfg c19bCfg) {
	srv := c.newServer(c.secret, cfg.a, cfg.b)
	foreignSrv := c.newServer(c.secret+"/other", cfg.a, cfg.b)
	if srv == nil || foreignSrv == nil {
		return
	}
	a, b := cfg.a, cfg.b // effective lifetimes (the documented default is 300 s)
	if a == 0 {
		a = 300
	}
	if b == 0 {
		b = 300
	}
	// fresh payloads, renewed whenever the wall-clock second changes: the payload is then at most 0.5 s old at every
	// judged check (every check happens in the first half of a second)
	var pool, foreignPool []string
	poolSec := int64(-1)
	n := 0
	unusable := 0
	for wi, w := range c.wallets {
		for _, k := range c19bProofAges(a, b) {
			dom := c19bDomains[(wi+idx+int(k))%len(c19bDomains)]
			done := false
			for try := 0; try < 4 && !done; try++ {
				c19bAlign(20*time.Millisecond, 400*time.Millisecond)
				if now := time.Now(); now.Unix() != poolSec || len(pool) == 0 {
					poolSec = now.Unix()
					pool = c.generate(srv, 4)
					foreignPool = c.generate(foreignSrv, 2)
					if len(pool) == 0 || len(foreignPool) == 0 {
						return
					}
				}
				n++
				payload := pool[n%len(pool)]
				before := time.Now()
				ts := before.Unix() - k
				p := c.makeProof(w, dom, ts, payload, n%2 == 0)
				r := c.checkProof(srv, p, dom)
				after := time.Now()
				if after.Unix() != poolSec || c19bFrac(after) > c19bTol || before.Unix() != poolSec {
					if r.bad != "" {
						c.f.add("rc_panic_checkproof", "CheckProof %s; proof=%s", r.bad, c19bJSON(p))
					}
					continue // left the first half of the second: not judged, try again
				}
				done = true
				realAge := c19bSecs(before.Sub(time.Unix(ts, 0)))
				ctx := fmt.Sprintf("payload lifetime %d s, proof lifetime %d s, fresh payload (issued in the same second), proof timestamp = now-%d s (real age %.3f s); %s", a, b, k, realAge, w.name)
				c.st.add(fmt.Sprintf("age|%d|%d|%d|%s", cfg.a, cfg.b, k, c19bJSON(p)))
				between := (k >= a && k < b) || (k > b && k < a)
				if k < b {
					cause := "rc_fresh_proof_rejected"
					if between {
						cause = "rc_proof_checked_against_payload_lifetime"
					}
					c.judgeProofAccepted(cause, ctx, r, p, dom, w.pub)
				} else {
					cause := "rc_expired_proof_accepted"
					if between {
						cause = "rc_proof_checked_against_payload_lifetime"
					}
					c.judgeProofRejected(cause, ctx, r, p, dom)
				}
				if k == 0 {
					fp := c.makeProof(w, dom, ts, foreignPool[n%len(foreignPool)], false)
					c.st.add(fmt.Sprintf("age-foreign|%d|%d|%s", cfg.a, cfg.b, c19bJSON(fp)))
					c.judgeProofRejected("rc_proof_over_foreign_payload_accepted", ctx+"; payload of the server with secret "+strconv.Quote(foreignSrv.GetSecret()), c.checkProof(srv, fp, dom), fp, dom)
				}
			}
			if !done {
				unusable++
			}
		}
	}
	if unusable > 0 {
		c.f.add("rc_timing_unusable", "a=%d b=%d: %d proof ages could not be checked within the first half of a second in 4 tries: machine too loaded", cfg.a, cfg.b, unusable)
	}
}
