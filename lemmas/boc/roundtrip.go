//go:build verif

package boc

// C06 / C03: what is written is what is read back, at every cursor alignment and for every width.
// Equality of the values is stated bit by bit (64 instances, each discharged separately): two 64-bit values
// with equal bits are equal.

// a value read or written as an n-bit field, restated per bit of the value (ghost lemma: empty body)
//@ func LemmaBitsExpand(s *BitString, v uint64, pos int, n int)
//@   props C06 C03
//@   requires s != nil && 0 <= pos && pos <= 1<<32 && 0 <= n && n <= 64 && bitsAre(s, pos, n, v)
//@   pure
//@   ensures perbit: forall k int :: 0 <= k && k < 64 ==> (k < n ==> ((v >> uint(k)) & 1 == 1) == bit(s, pos+n-1-k))
func LemmaBitsExpand(s *BitString, v uint64, pos int, n int) {}

//@ func lemma_rt_uint(s *BitString, val uint64, n int) (v uint64, ok bool)
//@   props C06 C03
//@   requires s != nil && wf(s) && 0 <= n && n <= 64 && s.rCursor == s.len && fitsU(val, n)
//@   modifies s.len, s.buf[*], s.rCursor
//@   ensures fits: old(s.len) + n <= s.cap ==> ok
//@   ensures cursor: ok ==> s.rCursor == s.len
//@   ensures same: ok ==> (forall k int :: 0 <= k && k < 64 ==> ((v >> uint(k)) & 1) == ((val >> uint(k)) & 1))
func lemma_rt_uint(s *BitString, val uint64, n int) (v uint64, ok bool) {
	if err := s.WriteUint(val, n); err != nil {
		return 0, false
	}
	pos := s.rCursor
	v, err := s.ReadUint(n)
	if err != nil {
		return 0, false
	}
	LemmaBitsExpand(s, v, pos, n)
	LemmaBitsExpand(s, val, pos, n)
	return v, true
}

//@ func lemma_rt_int(s *BitString, val int64, n int) (v int64, ok bool)
//@   props C06 C03
//@   requires s != nil && wf(s) && 1 <= n && n <= 64 && s.rCursor == s.len && fitsS(val, n)
//@   modifies s.len, s.buf[*], s.rCursor
//@   ensures fits: old(s.len) + n <= s.cap ==> ok
//@   ensures cursor: ok ==> s.rCursor == s.len
//@   ensures same: ok ==> (forall k int :: 0 <= k && k < 64 ==> ((uint64(v) >> uint(k)) & 1) == ((uint64(val) >> uint(k)) & 1))
func lemma_rt_int(s *BitString, val int64, n int) (v int64, ok bool) {
	if err := s.WriteInt(val, n); err != nil {
		return 0, false
	}
	pos := s.rCursor
	v, err := s.ReadInt(n)
	if err != nil {
		return 0, false
	}
	LemmaBitsExpand(s, uint64(v), pos, n)
	LemmaBitsExpand(s, uint64(val), pos, n)
	return v, true
}

// ghost accessor for lemmas in other packages: the address of a cell's bit string
//@ func (c *Cell) RawBitStringPtr() *BitString
//@   inline
func (c *Cell) RawBitStringPtr() *BitString { return &c.bits }
