//go:build verif

package tlb

import "github.com/tonkeeper/tongo/boc"

// C03: a standard address without anycast survives encode -> decode: same constructor, same workchain
// (composition of the two hand-written codecs' contracts; the 256 address bits are compared by the bounded stand-in)
//@ func lemma_rt_msgaddress_std(c *boc.Cell, a MsgAddress, enc *Encoder, dec *Decoder, b *MsgAddress) (ok bool)
//@   props C03
//@   requires c != nil && boc.wf(&c.bits) && c.bits.rCursor == c.bits.len && c.bits.len <= 1<<20 && b != nil && dec != nil
//@   requires a.SumType == "AddrStd" && !a.AddrStd.Anycast.Exists
//@   requires sep: arr(c.bits.buf) != arr(b.AddrStd.Address[:])
//@   ensures fits: old(c.bits.len) + 267 <= c.bits.cap ==> ok
//@   ensures same: ok ==> b.SumType == "AddrStd" && !b.AddrStd.Anycast.Exists && (forall k int :: 0 <= k && k < 8 ==> ((uint64(uint8(b.AddrStd.WorkchainId)) >> uint(k)) & 1) == ((uint64(uint8(a.AddrStd.WorkchainId)) >> uint(k)) & 1))
//@   ensures consumed: ok ==> c.bits.rCursor == c.bits.len
func lemma_rt_msgaddress_std(c *boc.Cell, a MsgAddress, enc *Encoder, dec *Decoder, b *MsgAddress) (ok bool) {
	s := c.RawBitStringPtr()
	pos := s.GetWriteCursor()
	if err := a.MarshalTLB(c, enc); err != nil {
		return false
	}
	boc.LemmaBitsExpand(s, 4, pos, 3)
	boc.LemmaBitsExpand(s, uint64(uint8(a.AddrStd.WorkchainId)), pos+3, 8)
	lemmaTagStd(c, pos)
	if err := b.UnmarshalTLB(c, dec); err != nil {
		return false
	}
	boc.LemmaBitsExpand(s, uint64(uint8(b.AddrStd.WorkchainId)), pos+3, 8)
	return true
}

//@ func lemmaTagStd(c *boc.Cell, pos int)
//@   props C03
//@   requires c != nil && pos == c.bits.rCursor && boc.bit(&c.bits, c.bits.rCursor) && !boc.bit(&c.bits, c.bits.rCursor+1) && !boc.bit(&c.bits, c.bits.rCursor+2)
//@   pure
func lemmaTagStd(c *boc.Cell, pos int) {}
