//go:build verif

package ton

import "github.com/tonkeeper/tongo/tlb"

// C17: TL-B address <-> account id.

//@ spec be32of(a [32]byte) uint32 := uint32(a[0])<<24 | uint32(a[1])<<16 | uint32(a[2])<<8 | uint32(a[3])

// account id -> addr_std -> account id is the identity for workchains in the int8 range
//@ func lemma_account_tlb_roundtrip(id AccountID) (out AccountID, ok bool)
//@   props C17
//@   requires -128 <= id.Workchain && id.Workchain <= 127
//@   ensures ok && out.Workchain == id.Workchain
//@   ensures addr: forall k int :: 0 <= k && k < 32 ==> out.Address[k] == id.Address[k]
func lemma_account_tlb_roundtrip(id AccountID) (out AccountID, ok bool) {
	m := id.ToMsgAddress()
	r, err := AccountIDFromTlb(m)
	if err != nil || r == nil {
		return AccountID{}, false
	}
	return *r, true
}

// anycast: the first `depth` bits of the address are replaced by rewrite_pfx, the rest is kept
//@ func lemma_account_anycast(addr tlb.Bits256, wc int8, depth uint32, rewrite uint32) (out AccountID, ok bool)
//@   props C17
//@   requires 1 <= depth && depth <= 30 && rewrite < 1 << depth
//@   ensures ok && out.Workchain == int32(wc)
//@   ensures pfx: be32of(out.Address) >> (32 - depth) == rewrite
//@   ensures low: be32of(out.Address) & ((1 << (32 - depth)) - 1) == be32of(addr) & ((1 << (32 - depth)) - 1)
//@   ensures rest: forall k int :: 4 <= k && k < 32 ==> out.Address[k] == addr[k]
func lemma_account_anycast(addr tlb.Bits256, wc int8, depth uint32, rewrite uint32) (out AccountID, ok bool) {
	var m tlb.MsgAddress
	m.SumType = "AddrStd"
	m.AddrStd.Address = addr
	m.AddrStd.WorkchainId = wc
	m.AddrStd.Anycast.Exists = true
	m.AddrStd.Anycast.Value = tlb.Anycast{Depth: depth, RewritePfx: rewrite}
	r, err := AccountIDFromTlb(m)
	if err != nil || r == nil {
		return AccountID{}, false
	}
	return *r, true
}
