//go:build verif

package ton

// Property C17 (shard part): lemmas over the real functions of ton/shards.go and ton/block.go.
// The bodies only call the real code; the `ensures` clauses are the property, written
// independently as closed bit-vector formulas.

//@ spec be64of(a [32]byte) uint64 := uint64(a[0])<<56 | uint64(a[1])<<48 | uint64(a[2])<<40 | uint64(a[3])<<32 | uint64(a[4])<<24 | uint64(a[5])<<16 | uint64(a[6])<<8 | uint64(a[7])
//@ spec maxint(a int, b int) int := ite(a > b, a, b)
// validShard: a 64-bit shard id with the marker bit at position <= 63 (prefix length 0..63)
//@ pred validShard(m uint64) := m != 0

//@ func lemma_shard_parse_encode(m int64) (r int64, ok bool)
//@   props C17
//@   ensures rt: m != 0 ==> ok && r == m
//@   ensures zero: m == 0 ==> !ok
func lemma_shard_parse_encode(m int64) (r int64, ok bool) {
	s, err := ParseShardID(m)
	if err != nil {
		return 0, false
	}
	return s.Encode(), true
}

// An account matches a shard exactly when the shard prefix (the bits above the marker bit)
// is a binary prefix of the account address.
//@ func lemma_shard_match_account(m int64, a AccountID) (r bool, ok bool)
//@   props C17
//@   requires m != 0
//@   ensures ok
//@   ensures prefix: r == (((be64of(a.Address) ^ uint64(m)) >> (uint64(tz64(uint64(m))) + 1)) == 0)
func lemma_shard_match_account(m int64, a AccountID) (r bool, ok bool) {
	s, err := ParseShardID(m)
	if err != nil {
		return false, false
	}
	return s.MatchAccountID(a), true
}

// A shard matches a block's shard exactly when one of the two prefixes is a prefix of the other.
//@ func lemma_shard_match_block(m int64, b BlockID) (r bool, ok bool)
//@   props C17
//@   requires m != 0
//@   ensures ok
//@   ensures zero: b.Shard == 0 ==> !r
//@   ensures contain: b.Shard != 0 ==> r == (((uint64(m) ^ b.Shard) >> (uint64(maxint(tz64(uint64(m)), tz64(b.Shard))) + 1)) == 0)
func lemma_shard_match_block(m int64, b BlockID) (r bool, ok bool) {
	s, err := ParseShardID(m)
	if err != nil {
		return false, false
	}
	return s.MatchBlockID(b), true
}

// child/parent are mutual inverses; the two children are distinct, and each child's prefix
// extends the parent's prefix by one bit.
//@ func lemma_shard_child_parent(s uint64) (l uint64, r uint64, pl uint64, pr uint64)
//@   props C17
//@   requires s != 0 && tz64(s) >= 1
//@   ensures inverse: pl == s && pr == s
//@   ensures distinct: l != r
//@   ensures marker: tz64(l) == tz64(s) - 1 && tz64(r) == tz64(s) - 1
//@   ensures extendL: ((l ^ s) >> (uint64(tz64(s)) + 1)) == 0 && (l >> uint64(tz64(s))) & 1 == 0
//@   ensures extendR: ((r ^ s) >> (uint64(tz64(s)) + 1)) == 0 && (r >> uint64(tz64(s))) & 1 == 1
func lemma_shard_child_parent(s uint64) (l uint64, r uint64, pl uint64, pr uint64) {
	l = shardChild(s, true)
	r = shardChild(s, false)
	return l, r, shardParent(l), shardParent(r)
}

//@ func lemma_shard_parent_child(s uint64) (p uint64, cl uint64, cr uint64)
//@   props C17
//@   requires s != 0 && tz64(s) <= 62
//@   ensures s == cl || s == cr
//@   ensures tz64(p) == tz64(s) + 1
func lemma_shard_parent_child(s uint64) (p uint64, cl uint64, cr uint64) {
	p = shardParent(s)
	return p, shardChild(p, true), shardChild(p, false)
}
