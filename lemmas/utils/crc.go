//go:build verif

package utils

// C17: the table-driven step of Crc16 is the CRC-16/XMODEM step (polynomial 0x1021, most significant bit
// first, no reflection), for every state and every input byte.

func lemmaCrcBit(crc uint16) uint16 {
	if crc&0x8000 != 0 {
		return crc<<1 ^ 0x1021
	}
	return crc << 1
}

func lemmaCrc8(crc uint16) uint16 {
	crc = lemmaCrcBit(crc)
	crc = lemmaCrcBit(crc)
	crc = lemmaCrcBit(crc)
	crc = lemmaCrcBit(crc)
	crc = lemmaCrcBit(crc)
	crc = lemmaCrcBit(crc)
	crc = lemmaCrcBit(crc)
	crc = lemmaCrcBit(crc)
	return crc
}

//@ func lemma_crc16_table(b byte) (t uint16, r uint16)
//@   props C17
//@   ensures table: t == r
func lemma_crc16_table(b byte) (t uint16, r uint16) {
	return TABLE[b], lemmaCrc8(uint16(b) << 8)
}

// the loop body of Crc16 / Crc16String, verbatim, against the bitwise definition
//@ func lemma_crc16_step(crc uint16, b byte) (t uint16, r uint16)
//@   props C17
//@   ensures step: t == r
func lemma_crc16_step(crc uint16, b byte) (t uint16, r uint16) {
	t = (TABLE[((crc>>8)^uint16(b))&0xff] ^ (crc << 8)) & 0xffff
	return t, lemmaCrc8(crc ^ uint16(b)<<8)
}
