package main

import (
	"fmt"
	"go/ast"
	"go/types"
	"sort"
	"strings"

	"golang.org/x/tools/go/ssa"
)

type FuncResult struct {
	Name      string
	Key       string
	Obls      []*Obligation
	Aborted   string
	Notes     []string
	Trusted   bool
	GenSecs   float64
}

// VerifyFunction generates the obligations of one function under contract.
func VerifyFunction(w *World, fc *FuncContract) (res *FuncResult) {
	res = &FuncResult{Key: fc.Key()}
	fn := w.FindFunc(fc)
	if fn == nil {
		res.Name = shortPkg(fc.PkgPath) + "." + fc.Name
		res.Aborted = "contract names a function that does not exist: " + fc.SigText
		return
	}
	res.Name = funcDisplayName(fn)
	if fc.Trusted {
		res.Trusted = true
		return
	}
	if fn.Blocks == nil {
		res.Aborted = "function has no body"
		return
	}
	if len(fc.ParamNames) != len(fn.Params) {
		res.Aborted = fmt.Sprintf("contract signature has %d parameters, function has %d", len(fc.ParamNames), len(fn.Params))
		return
	}
	defer func() {
		if r := recover(); r != nil {
			if ae, ok := r.(abortError); ok {
				res.Aborted = ae.reason
				res.Obls = nil
				return
			}
			panic(r)
		}
	}()
	// pass 1: discover heap keys written inside loops
	d := newExec(w, fn, fc)
	d.discovery = true
	d.H.onWrite = func(key string, ref *Term) {
		atTarget := false
		if ref != nil && key != "*" {
			for _, tr := range d.targetRefs(key) {
				if tr.S == ref.S {
					atTarget = true
				}
			}
		}
		for _, id := range d.curLoops {
			if d.loopKeys[id] == nil {
				d.loopKeys[id] = map[string]bool{}
				d.loopLocal[id] = map[string]bool{}
			}
			d.loopKeys[id][key] = true
			if !atTarget {
				d.loopLocal[id][key] = true
			}
		}
	}
	d.runTop()
	// pass 2
	x := newExec(w, fn, fc)
	x.loopKeys = d.loopKeys
	x.loopLocal = d.loopLocal
	x.runTop()
	res.Obls = x.obls
	for n := range x.notes {
		res.Notes = append(res.Notes, n)
	}
	sort.Strings(res.Notes)
	return
}

func newExec(w *World, fn *ssa.Function, fc *FuncContract) *Exec {
	x := &Exec{W: w, S: NewScript(), fn: fn, fc: fc, loopKeys: map[string]map[string]bool{}, notes: map[string]bool{},
		strLits: map[string]Term{}, labelCount: map[string]int{}, inlineMax: 8, funcsSeen: map[string]bool{},
		localRefs: map[string]bool{}, loopLocal: map[string]map[string]bool{}}
	x.H = NewHeapEnv(x.S)
	return x
}

func (x *Exec) runTop() {
	fn, fc := x.fn, x.fc
	// owner(r): the object a reference belongs to (embedded arrays/structs live at references derived
	// from their enclosing object's, see embRef)
	x.S.Raw("(define-fun owner ((r Int)) Int (ite (<= r (- 1099511627776)) (mod (- r) 1099511627776) r))")
	next0 := x.S.DeclareNamed("next@0", SInt)
	x.S.Assert(IntLe(IntConst(1), next0))
	x.S.Assert(IntLt(next0, IntConst(1<<38)))
	x.entry = x.H.Base(next0)
	disp := funcDisplayName(fn)
	f := &frame{x: x, fn: fn, fc: fc, vals: map[ssa.Value]Val{}, path: fn.Name(), dispName: disp, entryHeap: x.entry}
	// parameters
	for i, p := range fn.Params {
		name := fc.ParamNames[i]
		if name == "_" || name == "" {
			name = p.Name()
		}
		v := x.freshVal("in_"+name, p.Type())
		for k, lf := range leaves(p.Type()) {
			x.inputs = append(x.inputs, inputVar{Name: name + lf.Path, Term: v.T[k]})
		}
		x.strictSlices = true
		pfacts := x.wfFacts(p.Type(), v.T, next0)
		x.strictSlices = false
		for _, fact := range pfacts {
			x.S.Assert(fact)
		}
		if i == 0 && fn.Signature.Recv() != nil {
			if _, isPtr := p.Type().Underlying().(*types.Pointer); isPtr {
				x.S.Assert(IntLt(IntConst(0), v.T[0]))
				x.note("pointer receivers are assumed non-nil")
			}
		}
		f.params = append(f.params, v)
	}
	x.topParams = f.params
	if len(x.W.Contracts.TypeInvs) > 0 {
		for i, p := range fn.Params {
			for _, fact := range x.typeInvFacts(p.Type(), f.params[i].T, x.entry) {
				x.S.Assert(fact)
			}
		}
	}
	ctx := f.contractCtx(x.entry)
	ctx.Lookup = nil
	for _, r := range fc.Requires {
		t, err := ctx.EvalBool(r.Expr)
		if err != nil {
			abort("requires %q: %v", r.Text, err)
		}
		x.S.Assert(t)
	}
	if fc.Alloc != nil {
		v, err := ctx.EvalVal(fc.Alloc.Expr)
		if err != nil {
			abort("alloc clause: %v", err)
		}
		v = ctx.defaultType(v)
		t := x.S.Define("allocbound", Resize(v.One(), 64, false))
		x.allocBound = &t
	}
	// closure of the entry heap below pointer parameters: references stored in their fields pre-exist
	for i, p := range fn.Params {
		if pt, ok := p.Type().Underlying().(*types.Pointer); ok {
			if _, isStruct := pt.Elem().Underlying().(*types.Struct); isStruct {
				vals := x.H.Load(x.entry, objectLoc(f.params[i].T[0], pt.Elem()))
				for _, fact := range x.wfFacts(pt.Elem(), vals, next0) {
					x.S.Assert(Implies(Not(Eq(f.params[i].T[0], IntConst(0))), fact))
				}
			}
		}
	}
	if fc.HasModifies && !fc.ModAll {
		var err error
		x.modTargets, err = ctx.evalModTargets(fc.Modifies)
		if err != nil {
			abort("modifies: %v", err)
		}
		x.explicitMod = true
	}
	if !x.discovery {
		// vacuity guard: the assumptions at entry must be satisfiable
		ob := &Obligation{Class: "VAC", Func: disp, Text: "preconditions are satisfiable", PC: True, Goal: True, script: x.S, mark: x.S.Mark(), Expect: "sat"}
		ob.Name = x.oblName(disp, "VAC", "entry")
		x.obls = append(x.obls, ob)
	}
	f.run(&BState{pc: True, heap: x.entry})
	if x.discovery {
		return
	}
	if len(f.rets) == 0 {
		x.note("%s has no reachable return", disp)
	}
	// postconditions, frame
	modTargets := x.modTargets
	for ri, r := range f.rets {
		// reachability of each return under the accumulated assumptions (informational vacuity guard)
		vob := &Obligation{Class: "VAC", Func: disp, Text: "return point is reachable under the assumptions made", PC: r.pc, Goal: True, script: x.S, mark: x.S.Mark(), Expect: "sat"}
		vob.Name = x.oblName(disp, "VAC", fmt.Sprintf("return%d", ri+1))
		x.obls = append(x.obls, vob)
		pctx := f.contractCtx(r.heap)
		pctx.Lookup = nil
		bindResults(pctx, fc, fn.Signature, r.vals)
		x.curResults = r.vals
		for _, e := range fc.Ensures {
			t, err := pctx.EvalBool(e.Expr)
			if err != nil {
				abort("ensures %q: %v", e.Text, err)
			}
			x.addObligation("POST", disp, clauseLabel(e), e.Text, r.pc, t, nil)
		}
		if len(fc.Finals) > 0 {
			f.curBlock = r.block
			fctx := f.contractCtx(r.heap)
			params := fctx.Vars
			fctx.Vars = map[string]Val{}
			bindResults(fctx, fc, fn.Signature, r.vals)
			fctx.Entry = params
			heapAt := r.heap
			fctx.Lookup = func(name string) (Val, bool) {
				if v, ok := f.lookupLocal(name, heapAt); ok {
					return v, true
				}
				v, ok := params[name]
				return v, ok
			}
			for _, e := range fc.Finals {
				t, err := fctx.EvalBool(e.Expr)
				if err != nil && strings.Contains(err.Error(), "unknown identifier") {
					// a local named by the consequent does not exist at this return: the clause can only
					// hold here vacuously, so its antecedent must be false
					if call, ok := e.Expr.(*ast.CallExpr); ok {
						if id, ok := call.Fun.(*ast.Ident); ok && id.Name == "__imp" {
							if a, err2 := fctx.EvalBool(call.Args[0]); err2 == nil {
								t, err = Not(a), nil
							}
						}
					}
				}
				if err != nil {
					abort("final %q: %v", e.Text, err)
				}
				x.addObligation("POST", disp, "final:"+clauseLabel(e), e.Text, r.pc, t, nil)
			}
		}
		if fc.HasModifies && !fc.ModAll {
			x.frameObligations(disp, ri, r, modTargets)
		}
	}
}

// targetRefs lists the references at which heap key k may be modified according to the modifies clause.
func (x *Exec) targetRefs(k string) []Term {
	var out []Term
	for _, mt := range x.modTargets {
		if mt.wholeArr {
			ks, _ := elemKeys(mt.elem)
			for _, kk := range ks {
				if kk == k {
					out = append(out, mt.arrRef)
				}
			}
			continue
		}
		for _, kr := range locKeys(mt.loc) {
			if kr.key == k {
				out = append(out, kr.ref)
			}
		}
	}
	return out
}

type keyRef struct {
	key string
	ref Term
}

// locKeys lists the heap keys a location of any type occupies, each with the reference it is stored at
// (embedded structs and arrays live at references of their own).
func locKeys(l *Loc) []keyRef {
	if st, ok := l.T.Underlying().(*types.Struct); ok {
		var out []keyRef
		for i := 0; i < st.NumFields(); i++ {
			out = append(out, locKeys(l.Field(i))...)
		}
		return out
	}
	var out []keyRef
	for _, lf := range leaves(l.T) {
		out = append(out, keyRef{l.Prefix + lf.Path, l.Ref})
	}
	return out
}

// frameGoal: pre-existing locations of key k outside the modifies clause agree in cur and ref.
func (x *Exec) frameGoal(class, disp, label, k string, pc Term, cur, ref Term) {
	if cur.S == ref.S {
		return
	}
	skn := x.S.freshName("frame_r")
	sk := Term{skn, SInt}
	extra := []string{fmt.Sprintf("(declare-const %s Int)", skn)}
	own := Term{"(owner " + skn + ")", SInt}
	conds := []Term{IntLt(IntConst(0), own), IntLt(own, x.entry.next)}
	for _, tr := range x.targetRefs(k) {
		conds = append(conds, Not(Eq(sk, tr)))
	}
	goal := Implies(And(conds...), Eq(Select(cur, sk), Select(ref, sk)))
	x.addObligation(class, disp, label, "locations of "+k+" outside the modifies clause are unchanged", pc, goal, extra)
}

// frameObligations: every pre-existing location outside the modifies clause is unchanged at return.
func (x *Exec) frameObligations(disp string, ri int, r retPoint, targets []modTarget) {
	var keys []string
	for k := range x.H.sorts {
		keys = append(keys, k)
	}
	sort.Strings(keys)
	for _, k := range keys {
		sortK := x.H.sorts[k]
		x.frameGoal("FRAME", disp, "unchanged:"+k, k, r.pc, x.H.Get(r.heap, k, sortK), x.H.Get(x.entry, k, sortK))
	}
}

// ---------------------------------------------------------------------------

func summarizeModel(ob *Obligation) map[string]string {
	out := map[string]string{}
	if ob.Result.Model == "" {
		return out
	}
	vals := parseModel(ob.Result.Model)
	for _, in := range ob.Inputs {
		if v, ok := vals[in.Term.S]; ok {
			out[in.Name] = v
		}
	}
	return out
}

// parseModel extracts (define-fun name () sort value) entries with simple values.
func parseModel(m string) map[string]string {
	out := map[string]string{}
	toks := tokenizeSexp(m)
	// scan for "( define-fun NAME ( ) SORT VALUE )"
	for i := 0; i+4 < len(toks); i++ {
		if toks[i] == "(" && toks[i+1] == "define-fun" && toks[i+3] == "(" && toks[i+4] == ")" {
			name := toks[i+2]
			j := i + 5
			// skip sort
			j = skipSexp(toks, j)
			k := skipSexp(toks, j)
			out[name] = strings.Join(toks[j:k], " ")
			i = k
		}
	}
	return out
}

func tokenizeSexp(s string) []string {
	var toks []string
	i := 0
	for i < len(s) {
		c := s[i]
		switch {
		case c == '(' || c == ')':
			toks = append(toks, string(c))
			i++
		case c == ' ' || c == '\n' || c == '\t' || c == '\r':
			i++
		case c == '|':
			j := strings.IndexByte(s[i+1:], '|')
			if j < 0 {
				j = len(s) - i - 2
			}
			toks = append(toks, s[i+1:i+1+j])
			i += j + 2
		case c == ';':
			for i < len(s) && s[i] != '\n' {
				i++
			}
		default:
			j := i
			for j < len(s) && !strings.ContainsRune("() \n\t\r", rune(s[j])) {
				j++
			}
			toks = append(toks, s[i:j])
			i = j
		}
	}
	return toks
}

func skipSexp(toks []string, j int) int {
	if j >= len(toks) {
		return j
	}
	if toks[j] != "(" {
		return j + 1
	}
	d := 0
	for ; j < len(toks); j++ {
		if toks[j] == "(" {
			d++
		} else if toks[j] == ")" {
			d--
			if d == 0 {
				return j + 1
			}
		}
	}
	return j
}
