package main

// SMT term construction (strings) with light constant folding, and the
// solver portfolio (z3 4.8.12, z3-new 5.1.0, cvc5 1.0.x) raced per query.

import (
	"bytes"
	"context"
	"fmt"
	"math/big"
	"os"
	"os/exec"
	"regexp"
	"strings"
	"sync"
	"time"
)

type Sort string

const (
	SBool Sort = "Bool"
	SInt  Sort = "Int" // references, interface values, opaque handles
)

func SBV(w int) Sort { return Sort(fmt.Sprintf("(_ BitVec %d)", w)) }
func SArr(idx, el Sort) Sort {
	return Sort("(Array " + string(idx) + " " + string(el) + ")")
}

var bvSortRe = regexp.MustCompile(`^\(_ BitVec (\d+)\)$`)

func (s Sort) BVWidth() int {
	m := bvSortRe.FindStringSubmatch(string(s))
	if m == nil {
		return 0
	}
	var w int
	fmt.Sscanf(m[1], "%d", &w)
	return w
}

// ArrParts splits "(Array I E)" into I and E.
func (s Sort) ArrParts() (Sort, Sort, bool) {
	str := string(s)
	if !strings.HasPrefix(str, "(Array ") {
		return "", "", false
	}
	body := str[len("(Array ") : len(str)-1]
	// first sort token
	end := sortTokenEnd(body)
	return Sort(body[:end]), Sort(strings.TrimSpace(body[end:])), true
}

func sortTokenEnd(s string) int {
	if len(s) == 0 {
		return 0
	}
	if s[0] != '(' {
		i := strings.IndexByte(s, ' ')
		if i < 0 {
			return len(s)
		}
		return i
	}
	d := 0
	for i := 0; i < len(s); i++ {
		switch s[i] {
		case '(':
			d++
		case ')':
			d--
			if d == 0 {
				return i + 1
			}
		}
	}
	return len(s)
}

type Term struct {
	S    string
	Sort Sort
}

func (t Term) String() string { return t.S }

var (
	True  = Term{"true", SBool}
	False = Term{"false", SBool}
)

var bvConstRe = regexp.MustCompile(`^\(_ bv(\d+) (\d+)\)$`)

func BVConst(v *big.Int, w int) Term {
	m := new(big.Int).Lsh(big.NewInt(1), uint(w))
	x := new(big.Int).Mod(v, m)
	return Term{fmt.Sprintf("(_ bv%s %d)", x.String(), w), SBV(w)}
}
func BVInt(v int64, w int) Term { return BVConst(big.NewInt(v), w) }

func (t Term) Const() (*big.Int, bool) {
	m := bvConstRe.FindStringSubmatch(t.S)
	if m == nil {
		return nil, false
	}
	v, _ := new(big.Int).SetString(m[1], 10)
	return v, true
}

func IntConst(v int64) Term {
	if v < 0 {
		return Term{fmt.Sprintf("(- %d)", -v), SInt}
	}
	return Term{fmt.Sprintf("%d", v), SInt}
}

func app(sort Sort, op string, args ...Term) Term {
	var b strings.Builder
	b.WriteByte('(')
	b.WriteString(op)
	for _, a := range args {
		b.WriteByte(' ')
		b.WriteString(a.S)
	}
	b.WriteByte(')')
	return Term{b.String(), sort}
}

func Not(a Term) Term {
	switch a.S {
	case "true":
		return False
	case "false":
		return True
	}
	if strings.HasPrefix(a.S, "(not ") {
		return Term{a.S[5 : len(a.S)-1], SBool}
	}
	return app(SBool, "not", a)
}

func And(ts ...Term) Term {
	var keep []Term
	for _, t := range ts {
		if t.S == "true" {
			continue
		}
		if t.S == "false" {
			return False
		}
		keep = append(keep, t)
	}
	switch len(keep) {
	case 0:
		return True
	case 1:
		return keep[0]
	}
	return app(SBool, "and", keep...)
}

func Or(ts ...Term) Term {
	var keep []Term
	for _, t := range ts {
		if t.S == "false" {
			continue
		}
		if t.S == "true" {
			return True
		}
		keep = append(keep, t)
	}
	switch len(keep) {
	case 0:
		return False
	case 1:
		return keep[0]
	}
	return app(SBool, "or", keep...)
}

func Implies(a, b Term) Term {
	if a.S == "true" {
		return b
	}
	if a.S == "false" || b.S == "true" {
		return True
	}
	return app(SBool, "=>", a, b)
}

func Eq(a, b Term) Term {
	if a.S == b.S {
		return True
	}
	if ca, ok := a.Const(); ok {
		if cb, ok := b.Const(); ok {
			if ca.Cmp(cb) == 0 {
				return True
			}
			return False
		}
	}
	return app(SBool, "=", a, b)
}

func Ite(c, a, b Term) Term {
	if c.S == "true" {
		return a
	}
	if c.S == "false" {
		return b
	}
	if a.S == b.S {
		return a
	}
	return app(a.Sort, "ite", c, a, b)
}

func Select(a, i Term) Term {
	_, el, ok := a.Sort.ArrParts()
	if !ok {
		panic("select on non-array sort " + string(a.Sort) + " term " + a.S)
	}
	return app(el, "select", a, i)
}

func Store(a, i, v Term) Term { return app(a.Sort, "store", a, i, v) }

func ConstArray(sort Sort, v Term) Term {
	return Term{fmt.Sprintf("((as const %s) %s)", sort, v.S), sort}
}

func mask(w int) *big.Int {
	m := new(big.Int).Lsh(big.NewInt(1), uint(w))
	return m.Sub(m, big.NewInt(1))
}

func toSigned(v *big.Int, w int) *big.Int {
	if v.Bit(w-1) == 1 {
		return new(big.Int).Sub(v, new(big.Int).Lsh(big.NewInt(1), uint(w)))
	}
	return new(big.Int).Set(v)
}

// BVBin builds a binary bit-vector operation with constant folding for the common ops.
func BVBin(op string, a, b Term) Term {
	w := a.Sort.BVWidth()
	if w == 0 || b.Sort.BVWidth() != w {
		panic(fmt.Sprintf("BVBin %s: sort mismatch %s:%s vs %s:%s", op, a.S, a.Sort, b.S, b.Sort))
	}
	ca, oka := a.Const()
	cb, okb := b.Const()
	if oka && okb {
		r := new(big.Int)
		switch op {
		case "bvadd":
			return BVConst(r.Add(ca, cb), w)
		case "bvsub":
			return BVConst(r.Sub(ca, cb), w)
		case "bvmul":
			return BVConst(r.Mul(ca, cb), w)
		case "bvand":
			return BVConst(r.And(ca, cb), w)
		case "bvor":
			return BVConst(r.Or(ca, cb), w)
		case "bvxor":
			return BVConst(r.Xor(ca, cb), w)
		case "bvshl":
			if cb.Cmp(big.NewInt(int64(w))) >= 0 {
				return BVInt(0, w)
			}
			return BVConst(r.Lsh(ca, uint(cb.Int64())), w)
		case "bvlshr":
			if cb.Cmp(big.NewInt(int64(w))) >= 0 {
				return BVInt(0, w)
			}
			return BVConst(r.Rsh(ca, uint(cb.Int64())), w)
		}
	}
	if okb && cb.Sign() == 0 {
		switch op {
		case "bvadd", "bvsub", "bvor", "bvxor", "bvshl", "bvlshr", "bvashr":
			return a
		}
	}
	if oka && ca.Sign() == 0 {
		switch op {
		case "bvadd", "bvor", "bvxor":
			return b
		}
	}
	return app(a.Sort, op, a, b)
}

func BVCmp(op string, a, b Term) Term {
	w := a.Sort.BVWidth()
	if w == 0 || b.Sort.BVWidth() != w {
		panic(fmt.Sprintf("BVCmp %s: sort mismatch %s:%s vs %s:%s", op, a.S, a.Sort, b.S, b.Sort))
	}
	ca, oka := a.Const()
	cb, okb := b.Const()
	if oka && okb {
		var c int
		if strings.HasPrefix(op, "bvs") {
			c = toSigned(ca, w).Cmp(toSigned(cb, w))
		} else {
			c = ca.Cmp(cb)
		}
		var r bool
		switch op {
		case "bvult", "bvslt":
			r = c < 0
		case "bvule", "bvsle":
			r = c <= 0
		case "bvugt", "bvsgt":
			r = c > 0
		case "bvuge", "bvsge":
			r = c >= 0
		}
		if r {
			return True
		}
		return False
	}
	return app(SBool, op, a, b)
}

func BVNot(a Term) Term {
	if c, ok := a.Const(); ok {
		w := a.Sort.BVWidth()
		return BVConst(new(big.Int).Xor(c, mask(w)), w)
	}
	return app(a.Sort, "bvnot", a)
}
func BVNeg(a Term) Term {
	if c, ok := a.Const(); ok {
		return BVConst(new(big.Int).Neg(c), a.Sort.BVWidth())
	}
	return app(a.Sort, "bvneg", a)
}

// Resize converts a bit-vector to width w (truncate, or extend by sign/zero).
func Resize(a Term, w int, signed bool) Term {
	aw := a.Sort.BVWidth()
	if aw == 0 {
		panic("Resize of non-bv " + a.S + ":" + string(a.Sort))
	}
	if aw == w {
		return a
	}
	if c, ok := a.Const(); ok {
		if signed {
			return BVConst(toSigned(c, aw), w)
		}
		return BVConst(c, w)
	}
	if w < aw {
		return Term{fmt.Sprintf("((_ extract %d 0) %s)", w-1, a.S), SBV(w)}
	}
	if signed {
		return Term{fmt.Sprintf("((_ sign_extend %d) %s)", w-aw, a.S), SBV(w)}
	}
	return Term{fmt.Sprintf("((_ zero_extend %d) %s)", w-aw, a.S), SBV(w)}
}

func Extract(a Term, hi, lo int) Term {
	if c, ok := a.Const(); ok {
		r := new(big.Int).Rsh(c, uint(lo))
		return BVConst(r, hi-lo+1)
	}
	return Term{fmt.Sprintf("((_ extract %d %d) %s)", hi, lo, a.S), SBV(hi - lo + 1)}
}

func Concat(ts ...Term) Term {
	w := 0
	for _, t := range ts {
		w += t.Sort.BVWidth()
	}
	if len(ts) == 1 {
		return ts[0]
	}
	return app(SBV(w), "concat", ts...)
}

func IntLt(a, b Term) Term  { return app(SBool, "<", a, b) }
func IntLe(a, b Term) Term  { return app(SBool, "<=", a, b) }
func IntAdd(a, b Term) Term { return app(SInt, "+", a, b) }

// ---------------------------------------------------------------------------
// Script: an ordered list of declarations / definitions / assumptions.

type Script struct {
	lines     []string
	guards    []string // per line: name of the path condition under which an assumption was made ("" = always relevant)
	names     map[string]bool
	ctr       int
	pcParents map[string][]string
	// index for cone-of-influence pruning (built lazily)
	mu          sync.Mutex
	indexed     int
	lineKind    []byte // 'a' assert, 'd' declaration/definition, 'o' other (always kept)
	lineName    []string
	lineSyms    [][]string
	defLine     map[string]int
	assertLines []int
}

var symRe = regexp.MustCompile(`[^\s()]+`)
var defRe = regexp.MustCompile(`^\((declare-const|declare-fun|define-fun) (\S+)`)

// index classifies the first n lines and records which defined symbols each one mentions.
func (s *Script) index(n int) {
	if n <= s.indexed {
		return
	}
	if s.defLine == nil {
		s.defLine = map[string]int{}
	}
	// first pass: names
	for i := s.indexed; i < n; i++ {
		l := s.lines[i]
		kind, name := byte('o'), ""
		if m := defRe.FindStringSubmatch(l); m != nil {
			kind, name = 'd', m[2]
			s.defLine[name] = i
		} else if strings.HasPrefix(l, "(assert ") {
			kind = 'a'
			s.assertLines = append(s.assertLines, i)
		}
		s.lineKind = append(s.lineKind, kind)
		s.lineName = append(s.lineName, name)
		s.lineSyms = append(s.lineSyms, nil)
	}
	for i := s.indexed; i < n; i++ {
		seen := map[string]bool{}
		var syms []string
		for _, tok := range symRe.FindAllString(s.lines[i], -1) {
			if tok == s.lineName[i] || seen[tok] {
				continue
			}
			if _, ok := s.defLine[tok]; ok {
				seen[tok] = true
				syms = append(syms, tok)
			}
		}
		s.lineSyms[i] = syms
	}
	s.indexed = n
}

func NewScript() *Script { return &Script{names: map[string]bool{}, pcParents: map[string][]string{}} }

func (s *Script) add(line, guard string) {
	s.lines = append(s.lines, line)
	s.guards = append(s.guards, guard)
}

// DefinePC names a path condition and records the path conditions it was built from.
func (s *Script) DefinePC(t Term, parents []string) Term {
	if t.S == "true" || t.S == "false" {
		return t
	}
	if _, isPC := s.pcParents[t.S]; isPC {
		return t
	}
	n := s.freshName("pc")
	s.add(fmt.Sprintf("(define-fun %s () Bool %s)", n, t.S), "")
	s.pcParents[n] = parents
	return Term{n, SBool}
}

var pcNameRe = regexp.MustCompile(`pc![0-9]+`)

// Ancestors returns the set of named path conditions a term depends on, transitively.
func (s *Script) Ancestors(t Term) map[string]bool {
	out := map[string]bool{}
	var visit func(n string)
	visit = func(n string) {
		if out[n] {
			return
		}
		out[n] = true
		for _, p := range s.pcParents[n] {
			for _, m := range pcNameRe.FindAllString(p, -1) {
				visit(m)
			}
		}
	}
	for _, m := range pcNameRe.FindAllString(t.S, -1) {
		visit(m)
	}
	return out
}

// AssertUnder records an assumption made on the paths described by pc.
func (s *Script) AssertUnder(pc Term, t Term) {
	if t.S == "true" || pc.S == "false" {
		return
	}
	guard := ""
	if ms := pcNameRe.FindAllString(pc.S, -1); len(ms) > 0 {
		guard = ms[len(ms)-1]
		if _, ok := s.pcParents[pc.S]; ok {
			guard = pc.S
		}
	}
	s.add(fmt.Sprintf("(assert %s)", Implies(pc, t).S), guard)
}

var identSan = regexp.MustCompile(`[^A-Za-z0-9_.$]`)

func sanitize(s string) string { return identSan.ReplaceAllString(s, "_") }

func (s *Script) freshName(hint string) string {
	s.ctr++
	return fmt.Sprintf("%s!%d", sanitize(hint), s.ctr)
}

// Declare introduces an unconstrained constant.
func (s *Script) Declare(hint string, sort Sort) Term {
	n := s.freshName(hint)
	s.add(fmt.Sprintf("(declare-const %s %s)", n, sort), "")
	return Term{n, sort}
}

// DeclareNamed declares a constant with an exact name (idempotent).
func (s *Script) DeclareNamed(name string, sort Sort) Term {
	if !s.names[name] {
		s.names[name] = true
		s.add(fmt.Sprintf("(declare-const %s %s)", name, sort), "")
	}
	return Term{name, sort}
}

func (s *Script) DeclareFun(name string, args []Sort, res Sort) {
	if s.names[name] {
		return
	}
	s.names[name] = true
	var as []string
	for _, a := range args {
		as = append(as, string(a))
	}
	s.add(fmt.Sprintf("(declare-fun %s (%s) %s)", name, strings.Join(as, " "), res), "")
}

// Define names a term (kept small: trivial terms are returned unchanged).
func (s *Script) Define(hint string, t Term) Term {
	if len(t.S) < 40 {
		return t
	}
	n := s.freshName(hint)
	s.add(fmt.Sprintf("(define-fun %s () %s %s)", n, t.Sort, t.S), "")
	return Term{n, t.Sort}
}

func (s *Script) Assert(t Term) {
	if t.S == "true" {
		return
	}
	s.add(fmt.Sprintf("(assert %s)", t.S), "")
}

func (s *Script) Raw(line string) { s.add(line, "") }

func (s *Script) Mark() int { return len(s.lines) }

// ---------------------------------------------------------------------------
// Solver portfolio.

type SolverResult struct {
	Status string // unsat | sat | unknown | timeout | error
	Solver string
	Secs   float64
	Model  string
	Raw    string
}

type solverSpec struct {
	name string
	argv func(file string, timeoutS int) []string
	prep func(q string) string
}

var solvers = []solverSpec{
	{"z3-new-5.1.0", func(f string, t int) []string {
		return []string{"z3-new", fmt.Sprintf("-T:%d", t), f}
	}, nil},
	{"z3-new-5.1.0-mbqi", func(f string, t int) []string {
		return []string{"z3-new", "smt.ematching=false", fmt.Sprintf("-T:%d", t), f}
	}, func(q string) string {
		if !strings.Contains(q, "(forall ") {
			return "" // only useful on quantified queries
		}
		return q
	}},
	{"z3-4.8.12", func(f string, t int) []string {
		return []string{"/usr/bin/z3", fmt.Sprintf("-T:%d", t), f}
	}, nil},
	{"cvc5-1.0", func(f string, t int) []string {
		return []string{"cvc5", "--produce-models", "--full-saturate-quant", fmt.Sprintf("--tlimit=%d", t*1000), f}
	}, func(q string) string {
		if strings.Contains(q, "(lambda ") {
			return ""
		}
		return "(set-logic ALL)\n" + q
	}},
}

var solverSem = make(chan struct{}, 16)

// wall-clock limit of a solver run = wallFactor x its CPU-time budget
const wallFactor = 4

var queryCache sync.Map // query text -> SolverResult

// Solve races the portfolio on one query text (without set-logic / check-sat suffix added by caller).
func Solve(query string, timeoutS int, wantModel bool) SolverResult {
	full := query + "\n(check-sat)\n"
	if wantModel {
		full += "(get-model)\n"
	}
	if r, ok := queryCache.Load(full); ok {
		return r.(SolverResult)
	}
	solverSem <- struct{}{}
	defer func() { <-solverSem }()
	ctx, cancel := context.WithTimeout(context.Background(), time.Duration(wallFactor*timeoutS+2)*time.Second)
	defer cancel()
	type res struct{ r SolverResult }
	ch := make(chan SolverResult, len(solvers))
	n := 0
	for _, sp := range solvers {
		q := full
		if sp.prep != nil {
			q = sp.prep(full)
			if q == "" {
				continue
			}
		}
		n++
		go func(sp solverSpec, q string) {
			ch <- runSolver(ctx, sp, q, timeoutS)
		}(sp, q)
	}
	best := SolverResult{Status: "unknown"}
	var total float64
	for i := 0; i < n; i++ {
		r := <-ch
		total += r.Secs
		if r.Status == "unsat" || r.Status == "sat" {
			best = r
			cancel()
			break
		}
		if best.Status == "unknown" && r.Status == "timeout" {
			best = r
		}
		if best.Solver == "" {
			best = r
		}
	}
	queryCache.Store(full, best)
	return best
}

func runSolver(ctx context.Context, sp solverSpec, q string, timeoutS int) SolverResult {
	f, err := os.CreateTemp("", "govc-*.smt2")
	if err != nil {
		return SolverResult{Status: "error", Solver: sp.name, Raw: err.Error()}
	}
	defer os.Remove(f.Name())
	f.WriteString(q)
	f.Close()
	// The budget is CPU time (ulimit -t), so that a loaded machine does not turn a 20-second proof into a timeout;
	// the wall-clock limit is wallFactor times larger and only a safety net.
	argv := sp.argv(f.Name(), wallFactor*timeoutS)
	start := time.Now()
	sh := append([]string{"-c", fmt.Sprintf("ulimit -t %d; exec \"$@\"", timeoutS+1), "sh"}, argv...)
	cmd := exec.CommandContext(ctx, "/bin/sh", sh...)
	var out bytes.Buffer
	cmd.Stdout = &out
	cmd.Stderr = &out
	runErr := cmd.Run()
	secs := time.Since(start).Seconds()
	killedByLimit := false
	if cmd.ProcessState != nil {
		cpu := (cmd.ProcessState.UserTime() + cmd.ProcessState.SystemTime()).Seconds()
		if cpu > 0 {
			secs = cpu
		}
		if runErr != nil && cpu >= float64(timeoutS) {
			killedByLimit = true
		}
	}
	txt := out.String()
	first := strings.TrimSpace(strings.SplitN(txt, "\n", 2)[0])
	r := SolverResult{Solver: sp.name, Secs: secs, Raw: txt}
	switch first {
	case "unsat":
		r.Status = "unsat"
	case "sat":
		r.Status = "sat"
		if i := strings.Index(txt, "\n"); i >= 0 {
			r.Model = txt[i+1:]
		}
	case "timeout":
		r.Status = "timeout"
	case "unknown":
		r.Status = "unknown"
	default:
		if ctx.Err() != nil || killedByLimit {
			r.Status = "timeout"
		} else if strings.Contains(txt, "timeout") || strings.Contains(txt, "interrupted") {
			r.Status = "timeout"
		} else {
			r.Status = "error"
		}
	}
	return r
}

// SolveEach runs every solver of the portfolio to completion on the query (thorough cross-check).
func SolveEach(query string, timeoutS int) []SolverResult {
	full := query + "\n(check-sat)\n"
	solverSem <- struct{}{}
	defer func() { <-solverSem }()
	ctx, cancel := context.WithTimeout(context.Background(), time.Duration(wallFactor*timeoutS+2)*time.Second)
	defer cancel()
	var out []SolverResult
	ch := make(chan SolverResult, len(solvers))
	n := 0
	for _, sp := range solvers {
		q := full
		if sp.prep != nil {
			q = sp.prep(full)
			if q == "" {
				continue
			}
		}
		n++
		go func(sp solverSpec, q string) { ch <- runSolver(ctx, sp, q, timeoutS) }(sp, q)
	}
	for i := 0; i < n; i++ {
		out = append(out, <-ch)
	}
	return out
}

// pcDisjuncts returns the alternatives of a path condition that was defined as a disjunction.
func (s *Script) pcDisjuncts(pc Term) []Term {
	ps, ok := s.pcParents[pc.S]
	if !ok || len(ps) < 2 {
		return nil
	}
	var out []Term
	for _, p := range ps {
		out = append(out, Term{p, SBool})
	}
	return out
}
