package main

type ReplayResult struct {
	Reproduced bool   `json:"reproduced"`
	Note       string `json:"note"`
	Test       string `json:"test_source,omitempty"`
	Output     string `json:"output,omitempty"`
}

func replayModel(w *World, ob *Obligation, model map[string]string) *ReplayResult {
	return &ReplayResult{Note: "replay not implemented for this obligation class"}
}
