package main

// Counterexample replay: a `sat` model is turned into a Go test that builds the function's inputs,
// runs the real function (in its package, via `go test -overlay`, nothing written to the repository),
// and compares what happens with what the model predicts.
//
//   SAFE / PRE / INV / FRAME / DECR obligations: reproduced iff the real run panics.
//   POST obligations: reproduced iff the real run returns the result values the model predicts
//   (the solver has shown those values to violate the clause).

import (
	"bytes"
	"context"
	"encoding/json"
	"fmt"
	"go/types"
	"math/big"
	"os"
	"os/exec"
	"path/filepath"
	"strings"
	"time"

	"golang.org/x/tools/go/ssa"
)

type ReplayResult struct {
	Reproduced bool              `json:"reproduced"`
	Note       string            `json:"note"`
	Inputs     map[string]string `json:"inputs,omitempty"`
	Predicted  map[string]string `json:"predicted_results,omitempty"`
	Test       string            `json:"test_source,omitempty"`
	Output     string            `json:"output,omitempty"`
	Cmd        string            `json:"cmd,omitempty"`
}

type replayInfo struct {
	fn      *ssa.Function
	params  []Val
	results []Val // for POST obligations: the return values at that return point
	names   map[string]bool
}

const replayElems = 160

type valueReq struct {
	key  string
	term string
}

// replayModel re-queries the solver for the concrete inputs and runs them on the real code.
func replayModel(w *World, ob *Obligation, model map[string]string) *ReplayResult {
	ri := ob.replay
	if ri == nil || ob.script == nil {
		return &ReplayResult{Note: "no replay information for this obligation"}
	}
	fn := ri.fn
	g := &replayGen{w: w, ri: ri, pkg: fn.Pkg.Pkg}
	// 1. collect the terms whose values are needed
	for i, p := range fn.Params {
		g.request(fmt.Sprintf("p%d", i), p.Type(), ri.params[i].T, 0)
	}
	for i, r := range ri.results {
		for k, t := range r.T {
			g.reqs = append(g.reqs, valueReq{fmt.Sprintf("r%d.%d", i, k), t.S})
		}
	}
	if g.unsupported != "" {
		return &ReplayResult{Note: "inputs of this function cannot be constructed by the replay harness: " + g.unsupported}
	}
	vals, raw := getValues(ob, g.reqs)
	if vals == nil {
		return &ReplayResult{Note: "the solver gave no values for the inputs", Output: raw}
	}
	g.vals = vals
	// 2. Go source
	var body strings.Builder
	var args []string
	for i, p := range fn.Params {
		expr, ok := g.build(fmt.Sprintf("p%d", i), p.Type(), 0)
		if !ok {
			return &ReplayResult{Note: "inputs cannot be constructed: " + g.unsupported}
		}
		fmt.Fprintf(&body, "\tp%d := %s\n", i, expr)
		args = append(args, fmt.Sprintf("p%d", i))
	}
	call := ""
	if fn.Signature.Recv() != nil {
		call = fmt.Sprintf("p0.%s(%s)", fn.Name(), strings.Join(args[1:], ", "))
	} else {
		call = fmt.Sprintf("%s(%s)", fn.Name(), strings.Join(args, ", "))
	}
	nres := fn.Signature.Results().Len()
	var lhs []string
	for i := 0; i < nres; i++ {
		lhs = append(lhs, fmt.Sprintf("r%d", i))
	}
	if nres > 0 {
		fmt.Fprintf(&body, "\t%s := %s\n", strings.Join(lhs, ", "), call)
		for i := 0; i < nres; i++ {
			fmt.Fprintf(&body, "\tfmt.Printf(\"REPLAY-RESULT %d %%s\\n\", verifReplayShow(r%d))\n", i, i)
		}
	} else {
		fmt.Fprintf(&body, "\t%s\n", call)
	}
	src := fmt.Sprintf(`//go:build verif

package %s

import (
	"fmt"
	"reflect"
	"testing"
)

func verifReplayShow(v interface{}) string {
	rv := reflect.ValueOf(v)
	if !rv.IsValid() {
		return "nil"
	}
	switch rv.Kind() {
	case reflect.Bool:
		return fmt.Sprintf("bool:%%v", rv.Bool())
	case reflect.Int, reflect.Int8, reflect.Int16, reflect.Int32, reflect.Int64:
		return fmt.Sprintf("int:%%d", rv.Int())
	case reflect.Uint, reflect.Uint8, reflect.Uint16, reflect.Uint32, reflect.Uint64, reflect.Uintptr:
		return fmt.Sprintf("uint:%%d", rv.Uint())
	case reflect.Interface, reflect.Ptr, reflect.Map, reflect.Slice, reflect.Func, reflect.Chan:
		if rv.IsNil() {
			return "nil"
		}
		return "nonnil"
	}
	return "other"
}

func TestVerifReplay(t *testing.T) {
	defer func() {
		if r := recover(); r != nil {
			fmt.Printf("REPLAY-PANIC %%v\n", r)
		}
	}()
%s	fmt.Println("REPLAY-DONE")
}
`, g.pkg.Name(), body.String())
	res := &ReplayResult{Test: src, Inputs: map[string]string{}}
	for _, rq := range g.reqs {
		if v, ok := vals[rq.key]; ok && !strings.Contains(rq.key, "[") {
			res.Inputs[rq.key] = v
		}
	}
	// 3. run
	out, cmdline, err := runReplayTest(w, g.pkg.Path(), src)
	res.Output = out
	res.Cmd = cmdline
	if err != nil && !strings.Contains(out, "REPLAY-") {
		res.Note = "replay test did not build or run: " + err.Error()
		return res
	}
	panicked := strings.Contains(out, "REPLAY-PANIC")
	switch ob.Class {
	case "POST":
		if panicked {
			res.Reproduced = true
			res.Note = "the real function panics on the model's input"
			return res
		}
		res.Predicted = map[string]string{}
		comparable, equal := 0, 0
		for i, r := range ri.results {
			got := ""
			for _, ln := range strings.Split(out, "\n") {
				if strings.HasPrefix(ln, fmt.Sprintf("REPLAY-RESULT %d ", i)) {
					got = strings.TrimPrefix(ln, fmt.Sprintf("REPLAY-RESULT %d ", i))
				}
			}
			want := g.showPredicted(fmt.Sprintf("r%d", i), fn.Signature.Results().At(i).Type(), r)
			if want == "" || got == "" || got == "other" {
				continue
			}
			res.Predicted[fmt.Sprintf("result%d", i)] = want + " (real run: " + got + ")"
			comparable++
			if want == got {
				equal++
			}
		}
		if comparable > 0 && comparable == equal {
			res.Reproduced = true
			res.Note = "the real function returns exactly the values the model predicts; the solver shows these violate the clause"
		} else if comparable == 0 {
			res.Note = "the results are not of a kind the harness can compare"
		} else {
			res.Note = "the real run's results differ from the model's prediction (the model relies on an abstraction)"
		}
	default:
		if panicked {
			res.Reproduced = true
			res.Note = "the real function panics on the model's input"
		} else {
			res.Note = "the real function does not panic on the model's input"
		}
	}
	return res
}

type replayGen struct {
	w           *World
	ri          *replayInfo
	pkg         *types.Package
	reqs        []valueReq
	vals        map[string]string
	unsupported string
}

func (g *replayGen) fail(msg string) {
	if g.unsupported == "" {
		g.unsupported = msg
	}
}

func (g *replayGen) heapTerm(key string, sort Sort) (string, bool) {
	name := sanitize(key) + "@0"
	if !g.ri.names[name] {
		return "", false
	}
	return name, true
}

// request registers the solver terms needed to build a value of type t whose leaves are terms.
func (g *replayGen) request(key string, t types.Type, terms []Term, depth int) {
	switch u := t.Underlying().(type) {
	case *types.Basic:
		g.reqs = append(g.reqs, valueReq{key, terms[0].S})
		if isString(t) {
			g.reqs = append(g.reqs, valueReq{key + ".strlen", "(strlen " + terms[0].S + ")"})
			for j := 0; j < 64; j++ {
				g.reqs = append(g.reqs, valueReq{fmt.Sprintf("%s.str[%d]", key, j), fmt.Sprintf("(strbyte %s (_ bv%d 64))", terms[0].S, j)})
			}
		}
	case *types.Slice:
		for k, nm := range []string{".arr", ".off", ".len", ".cap"} {
			g.reqs = append(g.reqs, valueReq{key + nm, terms[k].S})
		}
		ls := leaves(u.Elem())
		if len(ls) != 1 || (ls[0].Sort.BVWidth() == 0 && ls[0].Sort != SBool) {
			return // elements stay zero
		}
		hk := "M." + heapTypeName(u.Elem()) + "[]"
		if name, ok := g.heapTerm(hk, ""); ok {
			for j := 0; j < replayElems; j++ {
				g.reqs = append(g.reqs, valueReq{fmt.Sprintf("%s[%d]", key, j), fmt.Sprintf("(select (select %s %s) (bvadd %s (_ bv%d 64)))", name, terms[0].S, terms[1].S, j)})
			}
		}
	case *types.Pointer:
		g.reqs = append(g.reqs, valueReq{key, terms[0].S})
		st, ok := u.Elem().Underlying().(*types.Struct)
		if !ok || depth >= 2 {
			return
		}
		g.requestStructAt(key+"*", u.Elem(), st, terms[0], depth+1)
	case *types.Struct:
		lo := 0
		for i := 0; i < u.NumFields(); i++ {
			n := nLeaves(u.Field(i).Type())
			g.request(key+"."+u.Field(i).Name(), u.Field(i).Type(), terms[lo:lo+n], depth)
			lo += n
		}
	case *types.Array:
		ls := leaves(u.Elem())
		if len(ls) == 1 && ls[0].Sort.BVWidth() > 0 && u.Len() <= replayElems {
			for j := int64(0); j < u.Len(); j++ {
				g.reqs = append(g.reqs, valueReq{fmt.Sprintf("%s[%d]", key, j), fmt.Sprintf("(select %s (_ bv%d 64))", terms[0].S, j)})
			}
		}
	case *types.Interface, *types.Map, *types.Signature, *types.Chan:
		g.reqs = append(g.reqs, valueReq{key, terms[0].S})
	}
}

// requestStructAt asks for the fields of the struct object at reference ref in the entry heap.
func (g *replayGen) requestStructAt(key string, named types.Type, st *types.Struct, ref Term, depth int) {
	loc := objectLoc(ref, named)
	for i := 0; i < st.NumFields(); i++ {
		f := st.Field(i)
		fl := loc.Field(i)
		fkey := key + "." + f.Name()
		switch fu := f.Type().Underlying().(type) {
		case *types.Struct:
			g.requestStructAt(fkey, f.Type(), fu, fl.Ref, depth)
			continue
		case *types.Array:
			ls := leaves(fu.Elem())
			if len(ls) == 1 && ls[0].Sort.BVWidth() > 0 && fu.Len() <= replayElems {
				if name, ok := g.heapTerm("M."+heapTypeName(fu.Elem())+"[]", ""); ok {
					for j := int64(0); j < fu.Len(); j++ {
						g.reqs = append(g.reqs, valueReq{fmt.Sprintf("%s[%d]", fkey, j), fmt.Sprintf("(select (select %s %s) (_ bv%d 64))", name, fl.Ref.S, j)})
					}
				}
			}
			continue
		}
		var terms []Term
		okAll := true
		for _, lf := range leaves(f.Type()) {
			name, ok := g.heapTerm(fl.Prefix+lf.Path, "")
			if !ok {
				okAll = false
				break
			}
			terms = append(terms, Term{fmt.Sprintf("(select %s %s)", name, fl.Ref.S), lf.Sort})
		}
		if !okAll {
			continue // never read by the function: stays zero
		}
		g.request(fkey, f.Type(), terms, depth)
	}
}

func (g *replayGen) typeName(t types.Type) (string, bool) {
	ok := true
	s := types.TypeString(t, func(p *types.Package) string {
		if p == g.pkg {
			return ""
		}
		ok = false
		return p.Name()
	})
	return s, ok
}

func parseBV(v string) (*big.Int, bool) {
	v = strings.TrimSpace(v)
	switch {
	case strings.HasPrefix(v, "#x"):
		n, ok := new(big.Int).SetString(v[2:], 16)
		return n, ok
	case strings.HasPrefix(v, "#b"):
		n, ok := new(big.Int).SetString(v[2:], 2)
		return n, ok
	case strings.HasPrefix(v, "(_ bv"):
		f := strings.Fields(v[5:])
		n, ok := new(big.Int).SetString(f[0], 10)
		return n, ok
	case strings.HasPrefix(v, "( _ bv"):
		f := strings.Fields(v[6:])
		n, ok := new(big.Int).SetString(f[0], 10)
		return n, ok
	}
	return nil, false
}

func parseIntVal(v string) (int64, bool) {
	v = strings.ReplaceAll(strings.ReplaceAll(strings.TrimSpace(v), "(", " "), ")", " ")
	f := strings.Fields(v)
	if len(f) == 1 {
		var n int64
		_, err := fmt.Sscanf(f[0], "%d", &n)
		return n, err == nil
	}
	if len(f) == 2 && f[0] == "-" {
		var n int64
		_, err := fmt.Sscanf(f[1], "%d", &n)
		return -n, err == nil
	}
	return 0, false
}

func (g *replayGen) intLit(key string, t types.Type) (string, bool) {
	w, signed, _ := isIntType(t)
	v, ok := g.vals[key]
	if !ok {
		return "0", true
	}
	n, ok := parseBV(v)
	if !ok {
		return "", false
	}
	if signed {
		n = toSigned(n, w)
	}
	tn, ok2 := g.typeName(t)
	if !ok2 {
		return "", false
	}
	if signed && n.Sign() < 0 && n.Cmp(new(big.Int).Neg(new(big.Int).Lsh(big.NewInt(1), uint(w-1)))) == 0 {
		// most negative value: -(1<<(w-1)) does not fit as a positive literal
		return fmt.Sprintf("%s(-%s - 1)", tn, new(big.Int).Sub(new(big.Int).Neg(n), big.NewInt(1)).String()), true
	}
	return fmt.Sprintf("%s(%s)", tn, n.String()), true
}

// build returns a Go expression constructing the value registered under key.
func (g *replayGen) build(key string, t types.Type, depth int) (string, bool) {
	tn, okName := g.typeName(t)
	switch u := t.Underlying().(type) {
	case *types.Basic:
		if _, _, ok := isIntType(t); ok {
			s, ok := g.intLit(key, t)
			if !ok {
				g.fail("value of " + key)
			}
			return s, ok
		}
		if isBool(t) {
			return fmt.Sprintf("%s(%v)", tn, strings.TrimSpace(g.vals[key]) == "true"), okName
		}
		if isString(t) {
			n, ok := parseBV(g.vals[key+".strlen"])
			if !ok || n.Cmp(big.NewInt(64)) > 0 {
				g.fail("string longer than the harness builds")
				return "", false
			}
			var bs []byte
			for j := int64(0); j < n.Int64(); j++ {
				b, _ := parseBV(g.vals[fmt.Sprintf("%s.str[%d]", key, j)])
				if b == nil {
					b = big.NewInt(0)
				}
				bs = append(bs, byte(b.Int64()))
			}
			return fmt.Sprintf("%s(%q)", tn, string(bs)), okName
		}
		g.fail("basic type " + t.String())
		return "", false
	case *types.Slice:
		etn, ok := g.typeName(u.Elem())
		if !ok {
			g.fail("slice element type from another package")
			return "", false
		}
		ln, ok1 := parseBV(g.vals[key+".len"])
		cp, ok2 := parseBV(g.vals[key+".cap"])
		arr, ok3 := parseIntVal(g.vals[key+".arr"])
		if !ok1 || !ok2 {
			g.fail("slice header of " + key)
			return "", false
		}
		if ok3 && arr == 0 && ln.Sign() == 0 {
			return fmt.Sprintf("%s(nil)", tn), okName
		}
		if ln.Cmp(big.NewInt(1<<22)) > 0 {
			g.fail(fmt.Sprintf("model needs a slice of %s elements (too large to build)", ln))
			return "", false
		}
		if cp.Cmp(ln) < 0 || cp.Cmp(big.NewInt(1<<22)) > 0 {
			cp = ln
		}
		var elems []string
		lsz := leaves(u.Elem())
		if len(lsz) == 1 && (lsz[0].Sort.BVWidth() > 0 || lsz[0].Sort == SBool) {
			for j := int64(0); j < ln.Int64() && j < replayElems; j++ {
				ek := fmt.Sprintf("%s[%d]", key, j)
				if _, have := g.vals[ek]; !have {
					break
				}
				if lsz[0].Sort == SBool {
					elems = append(elems, fmt.Sprintf("%d: %v", j, strings.TrimSpace(g.vals[ek]) == "true"))
					continue
				}
				lit, ok := g.intLit(ek, u.Elem())
				if !ok {
					break
				}
				if !strings.HasSuffix(lit, "(0)") {
					elems = append(elems, fmt.Sprintf("%d: %s", j, lit))
				}
			}
		}
		return fmt.Sprintf("func() %s { s := make([]%s, %s, %s); for k, v := range map[int]%s{%s} { s[k] = v }; return s }()", tn, etn, ln, cp, etn, strings.Join(elems, ", ")), okName
	case *types.Pointer:
		ref, ok := parseIntVal(g.vals[key])
		if ok && ref == 0 {
			return fmt.Sprintf("(%s)(nil)", tn), okName
		}
		st, isStruct := u.Elem().Underlying().(*types.Struct)
		if !isStruct || depth >= 2 {
			if depth >= 2 {
				return fmt.Sprintf("(%s)(nil)", tn), okName
			}
			g.fail("pointer to " + u.Elem().String())
			return "", false
		}
		lit, ok := g.buildStruct(key+"*", u.Elem(), st, depth+1)
		return "&" + lit, ok
	case *types.Struct:
		return g.buildStruct(key, t, u, depth)
	case *types.Array:
		var elems []string
		if _, _, ok := isIntType(u.Elem()); ok {
			for j := int64(0); j < u.Len() && j < replayElems; j++ {
				ek := fmt.Sprintf("%s[%d]", key, j)
				if _, have := g.vals[ek]; !have {
					continue
				}
				if lit, ok := g.intLit(ek, u.Elem()); ok && !strings.HasSuffix(lit, "(0)") {
					elems = append(elems, fmt.Sprintf("%d: %s", j, lit))
				}
			}
		}
		return fmt.Sprintf("%s{%s}", tn, strings.Join(elems, ", ")), okName
	case *types.Interface, *types.Map, *types.Signature, *types.Chan:
		return fmt.Sprintf("(%s)(nil)", tn), okName
	}
	g.fail("type " + t.String())
	return "", false
}

func (g *replayGen) buildStruct(key string, named types.Type, st *types.Struct, depth int) (string, bool) {
	tn, ok := g.typeName(named)
	if !ok {
		g.fail("struct type from another package: " + named.String())
		return "", false
	}
	var fields []string
	for i := 0; i < st.NumFields(); i++ {
		f := st.Field(i)
		if f.Name() == "_" {
			continue
		}
		sub := &replayGen{w: g.w, ri: g.ri, pkg: g.pkg, vals: g.vals}
		expr, ok := sub.build(key+"."+f.Name(), f.Type(), depth)
		if !ok {
			continue // leave the field at its zero value
		}
		fields = append(fields, fmt.Sprintf("%s: %s", f.Name(), expr))
	}
	return fmt.Sprintf("%s{%s}", tn, strings.Join(fields, ", ")), true
}

// showPredicted renders the model's value of a result the way verifReplayShow prints real results.
func (g *replayGen) showPredicted(key string, t types.Type, v Val) string {
	if len(v.T) != 1 {
		return ""
	}
	val, ok := g.vals[key+".0"]
	if !ok {
		return ""
	}
	if w, signed, isInt := isIntType(t); isInt {
		n, ok := parseBV(val)
		if !ok {
			return ""
		}
		if signed {
			return "int:" + toSigned(n, w).String()
		}
		return "uint:" + n.String()
	}
	if isBool(t) {
		return "bool:" + strings.TrimSpace(val)
	}
	switch t.Underlying().(type) {
	case *types.Interface, *types.Pointer, *types.Map:
		n, ok := parseIntVal(val)
		if !ok {
			return ""
		}
		if n == 0 {
			return "nil"
		}
		return "nonnil"
	}
	return ""
}

// getValues runs one solver on the failing query and asks for the values of the requested terms.
func getValues(ob *Obligation, reqs []valueReq) (map[string]string, string) {
	var terms []string
	for _, r := range reqs {
		terms = append(terms, r.term)
	}
	for _, bound := range []int64{64, 4096, 1 << 20, 0} {
		res, raw := getValuesBounded(ob, reqs, terms, bound)
		if res != nil {
			return res, raw
		}
	}
	return nil, "no solver produced values"
}

// getValuesBounded prefers small inputs: slice and string lengths are first required to be <= bound.
func getValuesBounded(ob *Obligation, reqs []valueReq, terms []string, bound int64) (map[string]string, string) {
	q := ob.Query()
	if bound > 0 {
		for _, r := range reqs {
			if strings.HasSuffix(r.key, ".len") || strings.HasSuffix(r.key, ".cap") || strings.HasSuffix(r.key, ".strlen") {
				q += fmt.Sprintf("(assert (bvule %s (_ bv%d 64)))\n", r.term, bound)
			}
		}
	}
	q += "(check-sat)\n(get-value (" + strings.Join(terms, "\n ") + "))\n"
	f, err := os.CreateTemp("", "govc-replay-*.smt2")
	if err != nil {
		return nil, err.Error()
	}
	defer os.Remove(f.Name())
	f.WriteString(q)
	f.Close()
	for _, argv := range [][]string{{"z3-new", "-T:30", f.Name()}, {"/usr/bin/z3", "-T:30", f.Name()}} {
		ctx, cancel := context.WithTimeout(context.Background(), 70*time.Second)
		cmd := exec.CommandContext(ctx, argv[0], argv[1:]...)
		var out bytes.Buffer
		cmd.Stdout = &out
		cmd.Run()
		cancel()
		txt := out.String()
		if !strings.HasPrefix(strings.TrimSpace(txt), "sat") {
			continue
		}
		toks := tokenizeSexp(txt[strings.Index(txt, "sat")+3:])
		// ( ( term value ) ( term value ) ... )
		res := map[string]string{}
		i := 0
		if i < len(toks) && toks[i] == "(" {
			i++
		}
		for k := 0; k < len(reqs) && i < len(toks); k++ {
			if toks[i] != "(" {
				break
			}
			i++
			i = skipSexp(toks, i) // the term
			j := skipSexp(toks, i)
			res[reqs[k].key] = strings.Join(toks[i:j], " ")
			i = j
			if i < len(toks) && toks[i] == ")" {
				i++
			}
		}
		if len(res) > 0 {
			return res, ""
		}
	}
	return nil, "no solver produced values"
}

func runReplayTest(w *World, pkgPath, src string) (string, string, error) {
	rel := strings.TrimPrefix(strings.TrimPrefix(pkgPath, modulePath), "/")
	dir := filepath.Join(w.RepoDir, rel)
	tf, err := os.CreateTemp("", "govc-replay-*_test.go")
	if err != nil {
		return "", "", err
	}
	defer os.Remove(tf.Name())
	tf.WriteString(src)
	tf.Close()
	repl := map[string]string{filepath.Join(dir, "zz_replay_verif_test.go"): tf.Name()}
	// lemma files of this package
	lem, _ := filepath.Glob(filepath.Join(w.VerifDir, "lemmas", rel, "*.go"))
	for _, l := range lem {
		repl[filepath.Join(dir, "zz_lemma_verif_"+filepath.Base(l))] = l
	}
	ovf, _ := os.CreateTemp("", "govc-replay-ov-*.json")
	data, _ := json.Marshal(map[string]interface{}{"Replace": repl})
	ovf.Write(data)
	ovf.Close()
	defer os.Remove(ovf.Name())
	args := []string{"test", "-tags", "verif", "-overlay", ovf.Name(), "-vet=off", "-count=1", "-v", "-timeout", "60s", "-run", "^TestVerifReplay$", "."}
	ctx, cancel := context.WithTimeout(context.Background(), 180*time.Second)
	defer cancel()
	cmd := exec.CommandContext(ctx, "sh", "-c", "ulimit -v 8000000; exec go "+strings.Join(args, " "))
	cmd.Dir = dir
	cmd.Env = goEnv()
	var out bytes.Buffer
	cmd.Stdout = &out
	cmd.Stderr = &out
	err = cmd.Run()
	o := out.String()
	if len(o) > 3000 {
		o = o[:3000]
	}
	return o, "cd " + dir + " && go " + strings.Join(args, " "), err
}
