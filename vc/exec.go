package main

// Verification-condition generation: one pass over the SSA control-flow DAG of a function
// (loops cut at their heads), merging states at joins with ite, calls taken by contract,
// by inlining, or havoc'd.

import (
	"bytes"
	"fmt"
	"go/ast"
	"go/constant"
	"go/printer"
	"go/token"
	"go/types"
	"math/big"
	"os"
	"sort"
	"strings"

	"golang.org/x/tools/go/ast/astutil"
	"golang.org/x/tools/go/ssa"
)

type Obligation struct {
	Name   string
	Class  string
	Func   string
	Text   string
	Where  string
	mark   int
	script *Script
	extra  []string
	PC     Term
	Goal   Term
	Result SolverResult
	Inputs []inputVar
	Expect string // "unsat" normally; "sat" for vacuity guards
	replay *replayInfo
}

type inputVar struct {
	Name string // Go-level name, e.g. "s.len", "boc[]"
	Term Term
}

type abortError struct{ reason string }

type BState struct {
	pc   Term
	heap *HeapState
}

type retPoint struct {
	pc    Term
	vals  []Val
	heap  *HeapState
	block *ssa.BasicBlock
}

type Exec struct {
	W            *World
	S            *Script
	H            *HeapEnv
	fn           *ssa.Function
	fc           *FuncContract
	discovery    bool
	loopKeys     map[string]map[string]bool
	curLoops     []string
	obls         []*Obligation
	notes        map[string]bool
	strLits      map[string]Term
	entry        *HeapState
	labelCount   map[string]int
	inputs       []inputVar
	inlineMax    int
	havocked     []Val // values stored by havocTarget during the call being processed
	funcsSeen    map[string]bool
	specDecls    map[string]bool
	entryVars    map[string]Val
	allocBound   *Term
	vacChecks    []*Obligation
	localRefs    map[string]bool
	opaqueInterior bool // see materialize
	strictSlices bool // slice values coming from outside (parameters, results of unmodelled calls) do not alias embedded arrays
	topParams    []Val
	curResults   []Val
	modTargets   []modTarget
	explicitMod  bool
	loopLocal    map[string]map[string]bool // loop id -> key -> written at a reference that is not a modifies target
}

// freshRef allocates a new reference in the current state of f.
func (f *frame) freshRef() Term {
	x := f.x
	ref := f.cur.heap.next
	x.localRefs[ref.S] = true
	f.cur.heap = x.H.WithNext(f.cur.heap, x.S.Define("next", IntAdd(ref, IntConst(1))))
	return ref
}

func (x *Exec) note(format string, a ...interface{}) {
	x.notes[fmt.Sprintf(format, a...)] = true
}

func abort(format string, a ...interface{}) { panic(abortError{fmt.Sprintf(format, a...)}) }

func shortPkg(p string) string {
	return strings.TrimPrefix(strings.TrimPrefix(p, modulePath), "/")
}

func funcDisplayName(fn *ssa.Function) string {
	s := fn.RelString(nil)
	s = strings.ReplaceAll(s, modulePath+"/", "")
	s = strings.ReplaceAll(s, modulePath, "tongo")
	return s
}

// ---------------------------------------------------------------------------

func (x *Exec) addObligation(class, fnName, label, text string, pc, goal Term, extra []string) {
	if x.discovery {
		return
	}
	if goal.S == "true" || pc.S == "false" {
		// trivially discharged by construction; still counted
		ob := &Obligation{Class: class, Func: fnName, Text: text, PC: pc, Goal: goal, Expect: "unsat"}
		ob.Name = x.oblName(fnName, class, label)
		ob.Result = SolverResult{Status: "unsat", Solver: "syntactic"}
		x.obls = append(x.obls, ob)
		return
	}
	ob := &Obligation{Class: class, Func: fnName, Text: text, PC: pc, Goal: goal, script: x.S, mark: x.S.Mark(), extra: extra, Expect: "unsat"}
	ob.Name = x.oblName(fnName, class, label)
	ob.Inputs = x.inputs
	if x.topParams != nil {
		ob.replay = &replayInfo{fn: x.fn, params: x.topParams, results: x.curResults, names: x.S.names}
	}
	x.obls = append(x.obls, ob)
}

func (x *Exec) oblName(fnName, class, label string) string {
	base := fnName + "/" + class + "/" + label
	x.labelCount[base]++
	if n := x.labelCount[base]; n > 1 {
		return fmt.Sprintf("%s#%d", base, n)
	}
	return base
}

func (ob *Obligation) Query() string {
	sc := ob.script
	sc.mu.Lock()
	defer sc.mu.Unlock()
	anc := sc.Ancestors(ob.PC)
	sc.index(ob.mark)
	tail := append([]string{}, ob.extra...)
	tail = append(tail, fmt.Sprintf("(assert %s)", ob.PC.S))
	if ob.Expect != "sat" {
		tail = append(tail, fmt.Sprintf("(assert (not %s))", ob.Goal.S))
	}
	// cone of influence: symbols reachable from the goal through definitions and through the
	// assumptions that mention them
	need := map[string]bool{}
	var work []string
	addSyms := func(text string) {
		for _, tok := range symRe.FindAllString(text, -1) {
			if _, ok := sc.defLine[tok]; ok && !need[tok] {
				need[tok] = true
				work = append(work, tok)
			}
		}
	}
	for _, l := range tail {
		addSyms(l)
	}
	keepAssert := map[int]bool{}
	for {
		for len(work) > 0 {
			n := work[len(work)-1]
			work = work[:len(work)-1]
			li := sc.defLine[n]
			if li < ob.mark {
				for _, d := range sc.lineSyms[li] {
					if !need[d] {
						need[d] = true
						work = append(work, d)
					}
				}
			}
		}
		progress := false
		for _, li := range sc.assertLines {
			if li >= ob.mark || keepAssert[li] {
				continue
			}
			if g := sc.guards[li]; g != "" && !anc[g] {
				continue
			}
			// reachability probes (Expect == "sat") must see EVERY assumption made on the way: a contradiction among
			// assumptions that share no symbol with the path condition is exactly what they are there to find
			hit := len(sc.lineSyms[li]) == 0 || ob.Expect == "sat"
			for _, d := range sc.lineSyms[li] {
				if need[d] {
					hit = true
					break
				}
			}
			if hit {
				keepAssert[li] = true
				progress = true
				for _, d := range sc.lineSyms[li] {
					if !need[d] {
						need[d] = true
						work = append(work, d)
					}
				}
			}
		}
		if !progress && len(work) == 0 {
			break
		}
	}
	var b strings.Builder
	for i, l := range sc.lines[:ob.mark] {
		if os.Getenv("GOVC_DEBUG") != "" && (sc.lineKind[i] == 'd' && need[sc.lineName[i]]) {
			for _, tok := range symRe.FindAllString(l, -1) {
				if li, ok := sc.defLine[tok]; ok && !need[tok] {
					fmt.Fprintf(os.Stderr, "COI BUG: line %d (%s) needs %s (line %d, kind %c) syms=%v\n", i, sc.lineName[i], tok, li, sc.lineKind[li], sc.lineSyms[i])
				}
			}
		}
		switch sc.lineKind[i] {
		case 'a':
			if !keepAssert[i] {
				continue
			}
		case 'd':
			if !need[sc.lineName[i]] {
				continue
			}
		}
		b.WriteString(l)
		b.WriteByte('\n')
	}
	for _, l := range tail {
		b.WriteString(l)
		b.WriteByte('\n')
	}
	return b.String()
}

// ---------------------------------------------------------------------------
// Strings (abstract): handles with strlen / strbyte.

func (x *Exec) strDecls() {
	x.S.DeclareFun("strlen", []Sort{SInt}, SBV(64))
	x.S.DeclareFun("strbyte", []Sort{SInt, SBV(64)}, SBV(8))
}

func (x *Exec) strLen(h Term) Term {
	x.strDecls()
	return app(SBV(64), "strlen", h)
}
func (x *Exec) strByte(h, i Term) Term {
	x.strDecls()
	return app(SBV(8), "strbyte", h, i)
}

func (x *Exec) strLit(s string) Term {
	if t, ok := x.strLits[s]; ok {
		return t
	}
	x.strDecls()
	id := 1000 + len(x.strLits)
	t := IntConst(int64(id))
	x.strLits[s] = t
	x.S.Assert(Eq(x.strLen(t), BVInt(int64(len(s)), 64)))
	if len(s) <= 12 {
		for i := 0; i < len(s); i++ {
			x.S.Assert(Eq(x.strByte(t, BVInt(int64(i), 64)), BVInt(int64(s[i]), 8)))
		}
	}
	return t
}

// ---------------------------------------------------------------------------
// Well-formedness facts that hold of every Go value of a type.

var sizeLimit = BVConst(new(big.Int).Lsh(big.NewInt(1), 40), 64)

func (x *Exec) wfFacts(t types.Type, vals []Term, next Term) []Term {
	var out []Term
	switch u := t.Underlying().(type) {
	case *types.Slice:
		arr, off, ln, cp := vals[0], vals[1], vals[2], vals[3]
		// (backing arrays of package-level slices live at small negative references; arrays embedded in
		// objects, which only a slice expression on them can reach, live below -2^40)
		if x.strictSlices {
			out = append(out, IntLt(IntConst(-(1<<40)), arr))
		}
		if !x.strictSlices {
			// a slice into an array embedded in an object: that object exists already
			out = append(out, Term{"(< (owner " + arr.S + ") " + next.S + ")", SBool})
		}
		out = append(out, IntLt(arr, next),
			BVCmp("bvule", ln, cp), BVCmp("bvule", cp, sizeLimit), BVCmp("bvule", off, sizeLimit),
			Implies(Eq(arr, IntConst(0)), Eq(cp, BVInt(0, 64))))
	case *types.Pointer, *types.Map, *types.Chan, *types.Signature:
		out = append(out, IntLe(IntConst(0), vals[0]), IntLt(vals[0], next))
	case *types.Interface:
		out = append(out, IntLe(IntConst(0), vals[0]))
	case *types.Basic:
		if isString(t) {
			out = append(out, IntLe(IntConst(0), vals[0]), BVCmp("bvule", x.strLen(vals[0]), sizeLimit))
		}
	case *types.Struct:
		lo := 0
		for i := 0; i < u.NumFields(); i++ {
			n := nLeaves(u.Field(i).Type())
			out = append(out, x.wfFacts(u.Field(i).Type(), vals[lo:lo+n], next)...)
			lo += n
		}
	case *types.Tuple:
		lo := 0
		for i := 0; i < u.Len(); i++ {
			n := nLeaves(u.At(i).Type())
			out = append(out, x.wfFacts(u.At(i).Type(), vals[lo:lo+n], next)...)
			lo += n
		}
	}
	return out
}

func (x *Exec) freshVal(hint string, t types.Type) Val {
	ls := leaves(t)
	out := make([]Term, len(ls))
	for i, l := range ls {
		out[i] = x.S.Declare(hint+l.Path, l.Sort)
	}
	return Val{T: out, Typ: t}
}

// locOf turns a pointer value into a location of the pointee type.
func (x *Exec) locOf(p Val, elem types.Type) *Loc {
	if p.Loc != nil {
		return p.Loc
	}
	return objectLoc(p.One(), elem)
}

// ---------------------------------------------------------------------------
// Globals.

func (x *Exec) globalRef(g *ssa.Global) Term {
	// stable negative reference per global
	name := g.Pkg.Pkg.Path() + "." + g.Name()
	h := int64(0)
	for _, c := range name {
		h = (h*131 + int64(c)) % 1000000007
	}
	return IntConst(-(h + 1))
}

func (x *Exec) globalLoc(g *ssa.Global) *Loc {
	elem := g.Type().(*types.Pointer).Elem()
	return objectLoc(x.globalRef(g), elem)
}

var globalInitDone = map[string]bool{}

// assumeGlobalInit asserts the initial value of immutable package-level tables on the entry heap.
func (x *Exec) assumeGlobalInit(g *ssa.Global) {
	key := g.Pkg.Pkg.Path() + "." + g.Name()
	if x.funcsSeen["G:"+key] {
		return
	}
	x.funcsSeen["G:"+key] = true
	if !strings.HasPrefix(g.Pkg.Pkg.Path(), modulePath) {
		return
	}
	if x.W.globalStored(g) {
		return
	}
	init, p := x.W.globalInit(g)
	if init == nil || p == nil {
		return
	}
	elem := g.Type().(*types.Pointer).Elem()
	loc := x.globalLoc(g)
	cur := x.H.Load(x.entry, loc)
	x.note("package-level variable %s.%s is never assigned by the module: its initial value is assumed at function entry", shortPkg(g.Pkg.Pkg.Path()), g.Name())
	switch u := elem.Underlying().(type) {
	case *types.Interface:
		if call, ok := init.(*ast.CallExpr); ok {
			if fn := calleeName(p.TypesInfo, call); fn == "errors.New" || fn == "fmt.Errorf" {
				// distinct non-nil value per global
				id := x.globalRef(g)
				x.S.Assert(Eq(cur[0], Term{fmt.Sprintf("(- 2000000000 %s)", id.S), SInt}))
			}
		}
	case *types.Slice:
		cl, ok := init.(*ast.CompositeLit)
		if !ok {
			return
		}
		w, _, isInt := isIntType(u.Elem())
		if !isInt {
			return
		}
		vals, ok := constElems(p.TypesInfo, cl)
		if !ok {
			return
		}
		n := int64(len(vals))
		arrRef := Term{fmt.Sprintf("(- %s 1000000007)", x.globalRef(g).S), SInt}
		x.S.Assert(And(Eq(cur[0], arrRef), Eq(cur[1], BVInt(0, 64)), Eq(cur[2], BVInt(n, 64)), Eq(cur[3], BVInt(n, 64))))
		el := sliceElemLoc(arrRef, BVInt(0, 64), u.Elem())
		a := x.H.Get(x.entry, el.Prefix, wrapSort(SBV(w), 1))
		inner := Select(a, arrRef)
		if len(vals) <= 512 {
			for i, v := range vals {
				x.S.Assert(Eq(Select(inner, BVInt(int64(i), 64)), BVConst(v, w)))
			}
		}
	case *types.Array:
		cl, ok := init.(*ast.CompositeLit)
		if !ok {
			return
		}
		w, _, isInt := isIntType(u.Elem())
		if !isInt {
			return
		}
		vals, ok := constElems(p.TypesInfo, cl)
		if !ok {
			return
		}
		if len(vals) <= 512 {
			for i, v := range vals {
				x.S.Assert(Eq(Select(cur[0], BVInt(int64(i), 64)), BVConst(v, w)))
			}
		}
	case *types.Basic:
		if tv, ok := p.TypesInfo.Types[init]; ok && tv.Value != nil {
			if w, _, isInt := isIntType(elem); isInt && tv.Value.Kind() == constant.Int {
				bi, _ := new(big.Int).SetString(tv.Value.ExactString(), 10)
				x.S.Assert(Eq(cur[0], BVConst(bi, w)))
			}
		}
	}
}

func calleeName(info *types.Info, call *ast.CallExpr) string {
	if se, ok := call.Fun.(*ast.SelectorExpr); ok {
		if id, ok := se.X.(*ast.Ident); ok {
			if pn, ok := info.Uses[id].(*types.PkgName); ok {
				return pn.Imported().Path() + "." + se.Sel.Name
			}
		}
	}
	return ""
}

func constElems(info *types.Info, cl *ast.CompositeLit) ([]*big.Int, bool) {
	var out []*big.Int
	for _, e := range cl.Elts {
		if _, isKV := e.(*ast.KeyValueExpr); isKV {
			return nil, false
		}
		tv, ok := info.Types[e]
		if !ok || tv.Value == nil || tv.Value.Kind() != constant.Int {
			return nil, false
		}
		bi, ok := new(big.Int).SetString(tv.Value.ExactString(), 10)
		if !ok {
			return nil, false
		}
		out = append(out, bi)
	}
	return out, true
}

func (x *Exec) loadGlobalVar(v *types.Var, h *HeapState) Val {
	sp := x.W.ssaPkgs[v.Pkg().Path()]
	if sp == nil {
		evalFail("package of %s not loaded", v.Name())
	}
	g, ok := sp.Members[v.Name()].(*ssa.Global)
	if !ok {
		evalFail("%s is not a package-level variable", v.Name())
	}
	x.assumeGlobalInit(g)
	return Val{T: x.H.Load(h, x.globalLoc(g)), Typ: v.Type()}
}

// ---------------------------------------------------------------------------
// Frames.

type havocedKey struct {
	key    string
	atHead Term
}

type loopInfo struct {
	havoced []havocedKey
	id      string
	ordinal int
	head    *ssa.BasicBlock
	phiVals map[*ssa.Phi]Val
	variant *Term
	lc      *LoopContract
	pcHead  Term
	fcOwner *FuncContract
}

type frame struct {
	x         *Exec
	fn        *ssa.Function
	fc        *FuncContract // contract of this function (for loop invariants), may be nil
	vals      map[ssa.Value]Val
	out       map[*ssa.BasicBlock]*BState
	path      string
	dispName  string
	depth     int
	baseLoops []string
	loops     map[*ssa.BasicBlock]*loopInfo
	loopsOf   map[*ssa.BasicBlock][]*loopInfo
	rets      []retPoint
	cur       *BState
	curBlock  *ssa.BasicBlock
	params    []Val
	callStack []*ssa.Function
	entryHeap *HeapState
	defers    []*ssa.Defer
}

func (f *frame) isBackEdge(from, to *ssa.BasicBlock) bool { return to.Dominates(from) }

func (f *frame) analyzeLoops() {
	f.loops = map[*ssa.BasicBlock]*loopInfo{}
	f.loopsOf = map[*ssa.BasicBlock][]*loopInfo{}
	var heads []*ssa.BasicBlock
	for _, b := range f.fn.Blocks {
		for _, s := range b.Succs {
			if f.isBackEdge(b, s) {
				if f.loops[s] == nil {
					f.loops[s] = &loopInfo{head: s}
					heads = append(heads, s)
				}
			}
		}
	}
	// order by source position of the head block
	posOf := func(b *ssa.BasicBlock) token.Pos {
		best := token.NoPos
		// a loop head's body is the best locator: use min pos over the natural loop
		return best
	}
	_ = posOf
	bodies := map[*ssa.BasicBlock]map[*ssa.BasicBlock]bool{}
	for _, h := range heads {
		body := map[*ssa.BasicBlock]bool{h: true}
		var stack []*ssa.BasicBlock
		for _, p := range h.Preds {
			if f.isBackEdge(p, h) && !body[p] {
				body[p] = true
				stack = append(stack, p)
			}
		}
		for len(stack) > 0 {
			n := stack[len(stack)-1]
			stack = stack[:len(stack)-1]
			for _, p := range n.Preds {
				if !body[p] {
					body[p] = true
					stack = append(stack, p)
				}
			}
		}
		bodies[h] = body
	}
	minPos := func(h *ssa.BasicBlock) token.Pos {
		best := token.NoPos
		for b := range bodies[h] {
			for _, in := range b.Instrs {
				if _, isDbg := in.(*ssa.DebugRef); isDbg {
					continue
				}
				if p := in.Pos(); p != token.NoPos && (best == token.NoPos || p < best) {
					best = p
				}
			}
		}
		return best
	}
	sort.SliceStable(heads, func(i, j int) bool {
		pi, pj := minPos(heads[i]), minPos(heads[j])
		if pi != pj {
			return pi < pj
		}
		return heads[i].Index < heads[j].Index
	})
	for i, h := range heads {
		li := f.loops[h]
		li.ordinal = i + 1
		li.id = fmt.Sprintf("%s#L%d", f.path, i+1)
		if f.fc != nil {
			li.lc = f.fc.Loops[i+1]
			li.fcOwner = f.fc
		}
	}
	for _, h := range heads {
		for b := range bodies[h] {
			f.loopsOf[b] = append(f.loopsOf[b], f.loops[h])
		}
	}
}

func (f *frame) rpo() []*ssa.BasicBlock {
	seen := map[*ssa.BasicBlock]bool{}
	var post []*ssa.BasicBlock
	var dfs func(b *ssa.BasicBlock)
	dfs = func(b *ssa.BasicBlock) {
		seen[b] = true
		for _, s := range b.Succs {
			if !seen[s] && !f.isBackEdge(b, s) {
				dfs(s)
			}
		}
		post = append(post, b)
	}
	dfs(f.fn.Blocks[0])
	for i, j := 0, len(post)-1; i < j; i, j = i+1, j-1 {
		post[i], post[j] = post[j], post[i]
	}
	return post
}

// edgeCond returns the branch condition of the k-th successor edge of block p.
func (f *frame) edgeCond(p *ssa.BasicBlock, k int) Term {
	if len(p.Instrs) == 0 {
		return True
	}
	if ifi, ok := p.Instrs[len(p.Instrs)-1].(*ssa.If); ok {
		c := f.val(ifi.Cond).One()
		if k == 0 {
			return c
		}
		return Not(c)
	}
	return True
}

func succIndex(p, b *ssa.BasicBlock, occurrence int) int {
	n := 0
	for k, s := range p.Succs {
		if s == b {
			if n == occurrence {
				return k
			}
			n++
		}
	}
	return -1
}

// run executes the function body from state st with the given parameter values.
func (f *frame) run(st *BState) {
	x := f.x
	f.analyzeLoops()
	f.out = map[*ssa.BasicBlock]*BState{}
	for i, p := range f.fn.Params {
		f.vals[p] = f.params[i]
	}
	for _, b := range f.rpo() {
		f.curBlock = b
		x.curLoops = append([]string{}, f.baseLoops...)
		for _, li := range f.loopsOf[b] {
			x.curLoops = append(x.curLoops, li.id)
		}
		var in *BState
		var conds []Term
		var predIdx []int
		if b.Index == 0 {
			in = st
		} else {
			var heaps []*HeapState
			occ := map[*ssa.BasicBlock]int{}
			for i, p := range b.Preds {
				o := occ[p]
				occ[p]++
				if f.isBackEdge(p, b) {
					continue
				}
				ps := f.out[p]
				if ps == nil {
					continue
				}
				k := succIndex(p, b, o)
				c := And(ps.pc, f.edgeCond(p, k))
				if c.S == "false" {
					continue
				}
				conds = append(conds, c)
				heaps = append(heaps, ps.heap)
				predIdx = append(predIdx, i)
			}
			if len(conds) == 0 {
				continue // unreachable
			}
			var parents []string
			for _, c := range conds {
				parents = append(parents, c.S)
			}
			pc := x.S.DefinePC(Or(conds...), parents)
			in = &BState{pc: pc, heap: x.H.Merge(conds, heaps)}
		}
		f.cur = &BState{pc: in.pc, heap: in.heap}
		// phi nodes
		var phis []*ssa.Phi
		for _, ins := range b.Instrs {
			if ph, ok := ins.(*ssa.Phi); ok {
				phis = append(phis, ph)
			} else if _, ok := ins.(*ssa.DebugRef); !ok {
				break
			}
		}
		for _, ph := range phis {
			var v Val
			for j := len(predIdx) - 1; j >= 0; j-- {
				ev := f.val(ph.Edges[predIdx[j]])
				ev = f.materialize(ev, ph.Type())
				if j == len(predIdx)-1 {
					v = Val{T: append([]Term{}, ev.T...), Typ: ph.Type(), Loc: ev.Loc}
					continue
				}
				if v.Loc != nil || ev.Loc != nil {
					v.Loc = nil
				}
				for k := range v.T {
					v.T[k] = Ite(conds[j], ev.T[k], v.T[k])
				}
			}
			for k := range v.T {
				v.T[k] = x.S.Define(ph.Name(), v.T[k])
			}
			f.vals[ph] = v
		}
		if li := f.loops[b]; li != nil {
			f.enterLoop(li, phis)
		}
		for _, ins := range b.Instrs {
			if _, ok := ins.(*ssa.Phi); ok {
				continue
			}
			f.step(ins)
			if f.cur == nil {
				break
			}
		}
		if f.cur != nil {
			f.out[b] = f.cur
			// back edges leaving this block
			occ := map[*ssa.BasicBlock]int{}
			for k, s := range b.Succs {
				_ = occ
				if f.isBackEdge(b, s) {
					f.backEdge(b, k, s)
				}
			}
		}
	}
}

// materialize turns a static location into a reference term when a plain value is required.
func (f *frame) materialize(v Val, t types.Type) Val {
	if v.Loc != nil && len(v.T) == 0 {
		if !v.Loc.Root || len(v.Loc.Chain) != 0 {
			if f.x.opaqueInterior {
				// a pointer into the middle of an object that only flows into an unspecified call: an opaque
				// non-nil reference (the call havocs all memory, so its identity does not matter)
				r := f.x.S.Declare("interior", SInt)
				f.assume(IntLt(IntConst(0), r))
				f.assume(IntLt(r, f.cur.heap.next))
				return Val{T: []Term{r}, Typ: t, Loc: v.Loc}
			}
			abort("interior pointer used as a first-class value in %s", f.dispName)
		}
		return Val{T: []Term{v.Loc.Ref}, Typ: t, Loc: v.Loc}
	}
	return v
}

func (f *frame) loopEvalCtx(li *loopInfo, heap *HeapState, phiVal func(*ssa.Phi) Val) *EvalCtx {
	ctx := f.contractCtx(heap)
	// inside the body of a function names denote the current values of the variables (parameters
	// are assignable): loop phis first, then the latest definition, then the parameter itself.
	params := ctx.Vars
	ctx.Vars = map[string]Val{}
	ctx.Entry = params
	ctx.Lookup = func(name string) (Val, bool) {
		for _, ins := range li.head.Instrs {
			if ph, ok := ins.(*ssa.Phi); ok && ph.Comment == name {
				return phiVal(ph), true
			}
			// `idx`: number of elements already processed by a range loop (hidden index + 1)
			if ph, ok := ins.(*ssa.Phi); ok && name == "idx" && ph.Comment == "rangeindex" {
				v := phiVal(ph)
				return scalar(BVBin("bvadd", v.One(), BVInt(1, 64)), types.Typ[types.Int]), true
			}
		}
		if v, ok := f.lookupLocal(name, heap); ok {
			return v, true
		}
		if v, ok := params[name]; ok {
			return v, true
		}
		return Val{}, false
	}
	return ctx
}

// contractCtx builds the evaluation context for this frame's own contract clauses.
func (f *frame) contractCtx(heap *HeapState) *EvalCtx {
	x := f.x
	ctx := &EvalCtx{X: x, PkgPath: fnPkg(f.fn).Pkg.Path(), Scope: fnPkg(f.fn).Pkg.Scope(), Vars: map[string]Val{}, Heap: heap, Old: f.entryHeap}
	names := f.paramNames()
	for i, n := range names {
		if n != "" && n != "_" && i < len(f.params) {
			ctx.Vars[n] = f.params[i]
		}
	}
	ctx.Lookup = func(name string) (Val, bool) { return f.lookupLocal(name, heap) }
	return ctx
}

func (f *frame) paramNames() []string {
	var names []string
	if f.fc != nil && len(f.fc.ParamNames) == len(f.fn.Params) {
		return f.fc.ParamNames
	}
	for _, p := range f.fn.Params {
		names = append(names, p.Name())
	}
	return names
}

// lookupLocal resolves a source-level local variable name to its current SSA value.
func (f *frame) lookupLocal(name string, heap *HeapState) (Val, bool) {
	// enclosing loop phis of the current block
	for _, li := range f.loopsOf[f.curBlock] {
		for _, ins := range li.head.Instrs {
			if ph, ok := ins.(*ssa.Phi); ok && ph.Comment == name {
				if v, ok := f.vals[ph]; ok {
					return v, true
				}
			}
		}
	}
	// address-taken variables live in memory: any debug ref to their address identifies the cell
	var cell *ssa.Alloc
	for _, b := range f.fn.Blocks {
		for _, ins := range b.Instrs {
			dr, ok := ins.(*ssa.DebugRef)
			if !ok || !dr.IsAddr {
				continue
			}
			id, ok := dr.Expr.(*ast.Ident)
			if !ok || id.Name != name {
				continue
			}
			if al, ok := dr.X.(*ssa.Alloc); ok {
				if _, have := f.vals[al]; have {
					if cell == nil || cell.Block().Dominates(al.Block()) {
						cell = al
					}
				}
			}
		}
	}
	if cell != nil {
		v := f.val(cell)
		pt := cell.Type().Underlying().(*types.Pointer)
		loc := f.x.locOf(v, pt.Elem())
		out := Val{T: f.x.H.Load(heap, loc), Typ: pt.Elem()}
		if isAggregate(pt.Elem()) {
			out.Loc = loc // `&x` and `x.arr[:]` in specifications
		}
		return out, true
	}
	// definitions visible at the current block: debug refs and phis named after the variable in
	// dominating blocks; the one deepest in the dominator tree (latest in its block) is current
	var best ssa.Value
	var bestBlock *ssa.BasicBlock
	var bestAddr bool
	for _, b := range f.fn.Blocks {
		if !(b == f.curBlock || b.Dominates(f.curBlock)) {
			continue
		}
		for _, ins := range b.Instrs {
			var cand ssa.Value
			addr := false
			switch t := ins.(type) {
			case *ssa.Phi:
				if t.Comment == name {
					cand = t
				}
			case *ssa.DebugRef:
				if id, ok := t.Expr.(*ast.Ident); ok && id.Name == name {
					cand, addr = t.X, t.IsAddr
				}
			}
			if cand == nil {
				continue
			}
			if _, have := f.vals[cand]; !have {
				if _, isC := cand.(*ssa.Const); !isC {
					continue
				}
			}
			if bestBlock == nil || bestBlock == b || bestBlock.Dominates(b) {
				best, bestBlock, bestAddr = cand, b, addr
			}
		}
	}
	if best != nil {
		v := f.val(best)
		if bestAddr {
			pt := best.Type().Underlying().(*types.Pointer)
			loc := f.x.locOf(v, pt.Elem())
			return Val{T: f.x.H.Load(heap, loc), Typ: pt.Elem()}, true
		}
		return v, true
	}
	// real parameter names
	for i, p := range f.fn.Params {
		if p.Name() == name {
			return f.params[i], true
		}
	}
	return Val{}, false
}

func (f *frame) enterLoop(li *loopInfo, phis []*ssa.Phi) {
	x := f.x
	entryPC := f.cur.pc
	entryHeap := f.cur.heap
	fnName := f.dispName
	// INV-ENTRY
	if !x.discovery && li.lc != nil {
		ctx := f.loopEvalCtx(li, entryHeap, func(ph *ssa.Phi) Val { return f.vals[ph] })
		for _, inv := range li.lc.Invariants {
			t, err := ctx.EvalBool(inv.Expr)
			if err != nil {
				abort("loop %d invariant %q: %v", li.ordinal, inv.Text, err)
			}
			x.addObligation("INV-ENTRY", fnName, fmt.Sprintf("loop%d:%s", li.ordinal, clauseLabel(inv)), inv.Text, entryPC, t, nil)
		}
	}
	if !x.discovery {
		for _, ii := range x.implicitInvs(entryHeap) {
			x.addObligation("INV-ENTRY", fnName, fmt.Sprintf("loop%d:typeinv:%s", li.ordinal, ii.name), "declared data-structure invariant of parameter "+ii.name+" holds at the loop head", entryPC, ii.t, nil)
		}
	}
	// havoc
	li.phiVals = map[*ssa.Phi]Val{}
	for _, ph := range phis {
		v := x.freshVal(ph.Comment+"_"+ph.Name(), ph.Type())
		li.phiVals[ph] = v
		f.vals[ph] = v
	}
	var h *HeapState
	keys := x.loopKeys[li.id]
	if x.discovery {
		save := x.H.onWrite
		x.H.onWrite = nil
		h = x.H.HavocAll(entryHeap)
		x.H.onWrite = save
	} else if keys["*"] {
		h = x.H.HavocAll(entryHeap)
	} else {
		var ks []string
		for k := range keys {
			ks = append(ks, k)
		}
		sort.Strings(ks)
		h = entryHeap
		li.havoced = nil
		for _, k := range ks {
			sortK, ok := x.H.sorts[k]
			if !ok {
				continue
			}
			pre := x.H.Get(entryHeap, k, sortK)
			var at Term
			if !x.explicitMod {
				at = x.S.Declare("hv_"+k, sortK)
			} else {
				_, elSort, _ := sortK.ArrParts()
				at = pre
				for _, ref := range x.targetRefs(k) {
					at = Store(at, ref, x.S.Declare("hv_"+k, elSort))
				}
				if x.loopLocal[li.id][k] {
					fresh := x.S.Declare("hv_"+k, sortK)
					rn := x.S.freshName("r")
					at = Term{fmt.Sprintf("(lambda ((%s Int)) (ite (>= (owner %s) %s) (select %s %s) (select %s %s)))", rn, rn, x.entry.next.S, fresh.S, rn, x.S.Define("hvbase", at).S, rn), sortK}
				}
			}
			h = x.H.Set(h, k, at)
			li.havoced = append(li.havoced, havocedKey{k, x.H.Get(h, k, sortK)})
		}
		nx := x.S.Declare("next", SInt)
		x.S.Assert(IntLt(nx, IntConst(1<<39)))
		x.S.Assert(IntLe(entryHeap.next, nx))
		h = x.H.WithNext(h, nx)
	}
	for _, ph := range phis {
		for _, fact := range x.wfFacts(ph.Type(), f.vals[ph].T, h.next) {
			x.S.Assert(fact)
		}
	}
	f.cur = &BState{pc: entryPC, heap: h}
	li.pcHead = entryPC
	if !x.discovery {
		for _, ii := range x.implicitInvs(h) {
			x.S.AssertUnder(entryPC, ii.t)
		}
	}
	if li.lc == nil {
		if !x.discovery {
			x.note("loop %d of %s has no invariant: executed with invariant `true`", li.ordinal, fnName)
		}
		return
	}
	ctx := f.loopEvalCtx(li, h, func(ph *ssa.Phi) Val { return f.vals[ph] })
	for _, inv := range li.lc.Invariants {
		t, err := ctx.EvalBool(inv.Expr)
		if err != nil {
			abort("loop %d invariant %q: %v", li.ordinal, inv.Text, err)
		}
		x.S.AssertUnder(entryPC, t)
	}
	if li.lc.Decreases != nil {
		v, err := ctx.EvalVal(li.lc.Decreases.Expr)
		if err != nil {
			abort("loop %d decreases: %v", li.ordinal, err)
		}
		v = ctx.defaultType(v)
		t := x.S.Define("variant", v.One())
		li.variant = &t
	}
}

func clauseLabel(c Clause) string {
	if c.Label != "" {
		return c.Label
	}
	s := strings.Join(strings.Fields(c.Text), " ")
	if len(s) > 48 {
		s = s[:48]
	}
	return s
}

func (f *frame) backEdge(b *ssa.BasicBlock, k int, head *ssa.BasicBlock) {
	x := f.x
	li := f.loops[head]
	if x.discovery || li == nil {
		return
	}
	cond := And(f.cur.pc, f.edgeCond(b, k))
	// which pred index of head is b (k-th succ)?
	predIdx := -1
	occWanted := 0
	for kk := 0; kk < k; kk++ {
		if b.Succs[kk] == head {
			occWanted++
		}
	}
	occ := 0
	for i, p := range head.Preds {
		if p == b {
			if occ == occWanted {
				predIdx = i
				break
			}
			occ++
		}
	}
	if predIdx < 0 {
		abort("back edge bookkeeping")
	}
	for _, ii := range x.implicitInvs(f.cur.heap) {
		x.addObligation("INV-STEP", f.dispName, fmt.Sprintf("loop%d:typeinv:%s", li.ordinal, ii.name), "declared data-structure invariant of parameter "+ii.name+" is preserved by the loop body", cond, ii.t, nil)
	}
	if li.lc == nil {
		if x.explicitMod {
			for _, hk := range li.havoced {
				x.frameGoal("FRAME-STEP", f.dispName, fmt.Sprintf("loop%d:%s", li.ordinal, hk.key), hk.key, cond, x.H.Get(f.cur.heap, hk.key, x.H.sorts[hk.key]), hk.atHead)
			}
		}
		return
	}
	ctx := f.loopEvalCtx(li, f.cur.heap, func(ph *ssa.Phi) Val {
		return f.materialize(f.val(ph.Edges[predIdx]), ph.Type())
	})
	for _, inv := range li.lc.Invariants {
		t, err := ctx.EvalBool(inv.Expr)
		if err != nil {
			abort("loop %d invariant %q at back edge: %v", li.ordinal, inv.Text, err)
		}
		x.addObligation("INV-STEP", f.dispName, fmt.Sprintf("loop%d:%s", li.ordinal, clauseLabel(inv)), inv.Text, cond, t, nil)
	}
	if len(li.lc.Continues) > 0 {
		// evaluated with the body's locals as they are when the back edge is taken
		cctx := f.contractCtx(f.cur.heap)
		params := cctx.Vars
		cctx.Vars = map[string]Val{}
		cctx.Entry = params
		heapAt := f.cur.heap
		cctx.Lookup = func(name string) (Val, bool) {
			if v, ok := f.lookupLocal(name, heapAt); ok {
				return v, true
			}
			v, ok := params[name]
			return v, ok
		}
		for _, cl := range li.lc.Continues {
			t, err := cctx.EvalBool(cl.Expr)
			if err != nil {
				abort("loop %d continues %q: %v", li.ordinal, cl.Text, err)
			}
			x.addObligation("INV-STEP", f.dispName, fmt.Sprintf("loop%d:continues:%s", li.ordinal, clauseLabel(cl)), "the loop only continues when: "+cl.Text, cond, t, nil)
		}
	}
	if x.explicitMod {
		for _, hk := range li.havoced {
			x.frameGoal("FRAME-STEP", f.dispName, fmt.Sprintf("loop%d:%s", li.ordinal, hk.key), hk.key, cond, x.H.Get(f.cur.heap, hk.key, x.H.sorts[hk.key]), hk.atHead)
		}
	}
	if li.variant != nil {
		v, err := ctx.EvalVal(li.lc.Decreases.Expr)
		if err != nil {
			abort("loop %d decreases at back edge: %v", li.ordinal, err)
		}
		v = ctx.defaultType(v)
		goal := And(BVCmp("bvsle", BVInt(0, li.variant.Sort.BVWidth()), *li.variant), BVCmp("bvslt", v.One(), *li.variant))
		x.addObligation("DECR", f.dispName, fmt.Sprintf("loop%d", li.ordinal), "decreases "+li.lc.Decreases.Text, cond, goal, nil)
	}
}

// ---------------------------------------------------------------------------
// Values.

func (f *frame) val(v ssa.Value) Val {
	x := f.x
	switch t := v.(type) {
	case *ssa.Const:
		return x.constVal(t)
	case *ssa.Global:
		x.assumeGlobalInit(t)
		return Val{Loc: x.globalLoc(t), Typ: t.Type()}
	case *ssa.Function:
		return Val{T: []Term{IntConst(int64(3000000 + len(t.Name())))}, Typ: t.Type()}
	case *ssa.Builtin:
		return Val{T: []Term{IntConst(0)}, Typ: t.Type()}
	}
	if r, ok := f.vals[v]; ok {
		return r
	}
	abort("use of unevaluated SSA value %s (%T) in %s", v.Name(), v, f.dispName)
	return Val{}
}

func (x *Exec) constVal(c *ssa.Const) Val {
	t := c.Type()
	if c.Value == nil {
		return Val{T: zeroLeaves(t), Typ: t}
	}
	switch c.Value.Kind() {
	case constant.Bool:
		if constant.BoolVal(c.Value) {
			return scalar(True, t)
		}
		return scalar(False, t)
	case constant.Int:
		w, _, ok := isIntType(t)
		if !ok {
			if isFloat(t) {
				abort("floating point constant")
			}
			abort("integer constant of type %s", t)
		}
		bi, _ := new(big.Int).SetString(c.Value.ExactString(), 10)
		return scalar(BVConst(bi, w), t)
	case constant.String:
		return scalar(x.strLit(constant.StringVal(c.Value)), t)
	}
	abort("unsupported constant %s", c)
	return Val{}
}

func (f *frame) set(v ssa.Value, val Val) {
	if val.Typ == nil {
		val.Typ = v.Type()
	}
	for k := range val.T {
		val.T[k] = f.x.S.Define(v.Name(), val.T[k])
	}
	f.vals[v] = val
}

func (f *frame) assume(t Term) { f.x.S.AssertUnder(f.cur.pc, t) }

// srcLabel renders a short, line-independent label for an instruction from its source expression.
func (f *frame) srcLabel(kind string, pos token.Pos, want func(ast.Node) bool) string {
	x := f.x
	if pos == token.NoPos {
		return kind
	}
	p := x.W.byPath[fnPkg(f.fn).Pkg.Path()]
	if p == nil {
		return kind
	}
	for _, file := range p.Syntax {
		if file.Pos() <= pos && pos < file.End() {
			path, _ := astutil.PathEnclosingInterval(file, pos, pos)
			for _, n := range path {
				if want(n) {
					var buf bytes.Buffer
					printer.Fprint(&buf, x.W.Prog.Fset, n)
					s := strings.Join(strings.Fields(buf.String()), " ")
					if len(s) > 56 {
						s = s[:56]
					}
					return kind + ":" + s
				}
			}
		}
	}
	return kind
}

func (f *frame) safe(kind string, pos token.Pos, want func(ast.Node) bool, goal Term, text string) {
	label := f.srcLabel(kind, pos, want)
	f.x.addObligation("SAFE", f.dispName, label, text, f.cur.pc, goal, nil)
	// after the check, execution continues only if it held
	f.assume(goal)
}

func isIndexExpr(n ast.Node) bool { _, ok := n.(*ast.IndexExpr); return ok }
func isSliceExpr(n ast.Node) bool { _, ok := n.(*ast.SliceExpr); return ok }
func isBinaryExpr(n ast.Node) bool {
	switch n.(type) {
	case *ast.BinaryExpr, *ast.AssignStmt:
		return true
	}
	return false
}
func isCallExpr(n ast.Node) bool { _, ok := n.(*ast.CallExpr); return ok }
func isDerefExpr(n ast.Node) bool {
	switch n.(type) {
	case *ast.SelectorExpr, *ast.StarExpr, *ast.IndexExpr, *ast.CallExpr, *ast.RangeStmt:
		return true
	}
	return false
}
func anyExpr(n ast.Node) bool {
	switch n.(type) {
	case ast.Expr, ast.Stmt:
		return true
	}
	return false
}

// nonNil emits the nil-dereference check for a pointer value.
func (f *frame) nonNil(p Val, pos token.Pos) {
	if p.Loc != nil {
		return // statically known location (alloc, field/element address, global): never nil
	}
	ref := p.One()
	f.safe("nil", pos, isDerefExpr, Not(Eq(ref, IntConst(0))), "nil pointer dereference")
}

func (f *frame) toIndex(v Val) Term {
	w, signed, ok := isIntType(v.Typ)
	if !ok {
		abort("non-integer index")
	}
	_ = w
	return Resize(v.One(), 64, signed)
}

// ---------------------------------------------------------------------------
// Instruction semantics.

func (f *frame) step(ins ssa.Instruction) {
	x := f.x
	switch t := ins.(type) {
	case *ssa.DebugRef:
		return
	case *ssa.Alloc:
		elem := t.Type().(*types.Pointer).Elem()
		ref := f.freshRef()
		loc := objectLoc(ref, elem)
		f.cur.heap = x.H.StoreLoc(f.cur.heap, loc, zeroLeaves(elem))
		f.vals[t] = Val{T: []Term{ref}, Typ: t.Type(), Loc: loc}
	case *ssa.BinOp:
		f.set(t, f.binop(t))
	case *ssa.UnOp:
		f.unop(t)
	case *ssa.Phi:
		return
	case *ssa.ChangeType:
		v := f.val(t.X)
		f.vals[t] = Val{T: v.T, Typ: t.Type(), Loc: v.Loc}
	case *ssa.Convert:
		f.convert(t)
	case *ssa.ChangeInterface:
		v := f.val(t.X)
		f.vals[t] = Val{T: v.T, Typ: t.Type()}
	case *ssa.MakeInterface:
		f.makeInterface(t)
	case *ssa.Extract:
		tup := f.val(t.Tuple)
		tp := t.Tuple.Type().(*types.Tuple)
		lo, hi := tupleRange(tp, t.Index)
		f.vals[t] = Val{T: tup.T[lo:hi], Typ: t.Type()}
	case *ssa.Field:
		v := f.val(t.X)
		st := t.X.Type().Underlying().(*types.Struct)
		lo, hi := fieldRange(st, t.Field)
		f.vals[t] = Val{T: v.T[lo:hi], Typ: t.Type()}
	case *ssa.FieldAddr:
		p := f.val(t.X)
		f.nonNil(p, t.Pos())
		elem := t.X.Type().Underlying().(*types.Pointer).Elem()
		f.vals[t] = Val{Loc: x.locOf(p, elem).Field(t.Field), Typ: t.Type()}
	case *ssa.IndexAddr:
		f.indexAddr(t)
	case *ssa.Index:
		f.index(t)
	case *ssa.Lookup:
		f.lookup(t)
	case *ssa.Slice:
		f.slice(t)
	case *ssa.MakeSlice:
		f.makeSlice(t)
	case *ssa.Store:
		p := f.val(t.Addr)
		f.nonNil(p, t.Pos())
		elem := t.Addr.Type().Underlying().(*types.Pointer).Elem()
		v := f.materialize(f.val(t.Val), elem)
		f.cur.heap = x.H.StoreLoc(f.cur.heap, x.locOf(p, elem), v.T)
	case *ssa.Call:
		f.call(t)
	case *ssa.If, *ssa.Jump:
		return
	case *ssa.Return:
		var vals []Val
		for _, r := range t.Results {
			vals = append(vals, f.materialize(f.val(r), r.Type()))
		}
		f.rets = append(f.rets, retPoint{pc: f.cur.pc, vals: vals, heap: f.cur.heap, block: f.curBlock})
		f.cur = nil
	case *ssa.Panic:
		label := f.srcLabel("panic", t.Pos(), isCallExpr)
		x.addObligation("SAFE", f.dispName, label, "explicit panic is unreachable", f.cur.pc, False, nil)
		f.cur = nil
	case *ssa.RunDefers:
		for i := len(f.defers) - 1; i >= 0; i-- {
			d := f.defers[i]
			if !isSyncNoop(d.Call) {
				abort("defer of %s", d.Call.Value.Name())
			}
		}
	case *ssa.Defer:
		if !isSyncNoop(t.Call) {
			abort("defer statement")
		}
		f.defers = append(f.defers, t)
	case *ssa.TypeAssert:
		f.typeAssert(t)
	case *ssa.MakeMap:
		ref := f.freshRef()
		f.vals[t] = Val{T: []Term{ref}, Typ: t.Type()}
	case *ssa.MapUpdate:
		x.note("map contents are not modelled (updates ignored, lookups unconstrained)")
	case *ssa.MakeClosure:
		// an opaque function value: calls that receive it (or invoke it) havoc all memory
		x.note("closures are opaque: any call that receives or invokes one is taken to modify all memory")
		r := x.S.Declare("closure", SInt)
		f.assume(IntLt(IntConst(0), r))
		f.vals[t] = Val{T: []Term{r}, Typ: t.Type()}
	case *ssa.Go:
		abort("go statement")
	case *ssa.Select:
		abort("select statement")
	case *ssa.Send:
		abort("channel send")
	case *ssa.MakeChan:
		abort("channel creation")
	case *ssa.Range, *ssa.Next:
		abort("range over map or string")
	case *ssa.SliceToArrayPointer:
		abort("slice to array pointer conversion")
	default:
		abort("unsupported instruction %T", ins)
	}
}

func isSyncNoop(c ssa.CallCommon) bool {
	if fn := c.StaticCallee(); fn != nil && fn.Pkg != nil {
		p := fn.Pkg.Pkg.Path()
		return p == "sync" || p == "sync/atomic"
	}
	return false
}

func (f *frame) binop(t *ssa.BinOp) Val {
	a := f.materialize(f.val(t.X), t.X.Type())
	b := f.materialize(f.val(t.Y), t.Y.Type())
	boolT := types.Typ[types.Bool]
	switch t.Op {
	case token.EQL, token.NEQ:
		if isFloat(t.X.Type()) {
			abort("floating point comparison")
		}
		var eqs []Term
		for i := range a.T {
			eqs = append(eqs, Eq(a.T[i], b.T[i]))
		}
		r := And(eqs...)
		if t.Op == token.NEQ {
			r = Not(r)
		}
		return scalar(r, boolT)
	}
	if isBool(t.X.Type()) {
		abort("boolean binop %s", t.Op)
	}
	if isString(t.X.Type()) {
		if t.Op == token.ADD {
			f.x.note("string concatenation result is abstract (only its length is known)")
			r := f.x.S.Declare("strcat", SInt)
			f.assume(IntLe(IntConst(0), r))
			f.assume(Eq(f.x.strLen(r), BVBin("bvadd", f.x.strLen(a.One()), f.x.strLen(b.One()))))
			return scalar(r, t.Type())
		}
		abort("string comparison %s", t.Op)
	}
	w, signed, ok := isIntType(t.X.Type())
	if !ok {
		abort("binary operator %s on %s", t.Op, t.X.Type())
	}
	x1, y1 := a.One(), b.One()
	switch t.Op {
	case token.SHL, token.SHR:
		yw, ysigned, _ := isIntType(t.Y.Type())
		if ysigned {
			if c, isC := y1.Const(); !isC || toSigned(c, yw).Sign() < 0 {
				f.safe("shift", t.Pos(), isBinaryExpr, BVCmp("bvsge", y1, BVInt(0, yw)), "negative shift count")
			}
		}
		cnt := shiftCount(Val{T: []Term{y1}, Typ: t.Y.Type()}, w)
		op := "bvshl"
		if t.Op == token.SHR {
			op = "bvlshr"
			if signed {
				op = "bvashr"
			}
		}
		return scalar(BVBin(op, x1, cnt), t.Type())
	case token.ADD:
		return scalar(BVBin("bvadd", x1, y1), t.Type())
	case token.SUB:
		return scalar(BVBin("bvsub", x1, y1), t.Type())
	case token.MUL:
		return scalar(BVBin("bvmul", x1, y1), t.Type())
	case token.QUO, token.REM:
		if c, isC := y1.Const(); !isC || c.Sign() == 0 {
			f.safe("div", t.Pos(), isBinaryExpr, Not(Eq(y1, BVInt(0, w))), "integer division by zero")
		}
		op := map[bool]map[token.Token]string{true: {token.QUO: "bvsdiv", token.REM: "bvsrem"}, false: {token.QUO: "bvudiv", token.REM: "bvurem"}}[signed][t.Op]
		return scalar(BVBin(op, x1, y1), t.Type())
	case token.AND:
		return scalar(BVBin("bvand", x1, y1), t.Type())
	case token.OR:
		return scalar(BVBin("bvor", x1, y1), t.Type())
	case token.XOR:
		return scalar(BVBin("bvxor", x1, y1), t.Type())
	case token.AND_NOT:
		return scalar(BVBin("bvand", x1, BVNot(y1)), t.Type())
	}
	pre := "bvu"
	if signed {
		pre = "bvs"
	}
	switch t.Op {
	case token.LSS:
		return scalar(BVCmp(pre+"lt", x1, y1), boolT)
	case token.LEQ:
		return scalar(BVCmp(pre+"le", x1, y1), boolT)
	case token.GTR:
		return scalar(BVCmp(pre+"gt", x1, y1), boolT)
	case token.GEQ:
		return scalar(BVCmp(pre+"ge", x1, y1), boolT)
	}
	abort("unsupported binary operator %s", t.Op)
	return Val{}
}

func (f *frame) unop(t *ssa.UnOp) {
	x := f.x
	switch t.Op {
	case token.MUL:
		p := f.val(t.X)
		f.nonNil(p, t.Pos())
		elem := t.X.Type().Underlying().(*types.Pointer).Elem()
		loc := x.locOf(p, elem)
		vals := x.H.Load(f.cur.heap, loc)
		for _, fact := range x.wfFacts(elem, vals, f.cur.heap.next) {
			f.assume(fact)
		}
		if len(x.W.Contracts.TypeInvs) > 0 {
			for _, fact := range x.typeInvFacts(elem, vals, f.cur.heap) {
				f.assume(fact)
			}
		}
		f.set(t, Val{T: vals, Typ: t.Type()})
	case token.SUB:
		if isFloat(t.Type()) {
			abort("floating point")
		}
		f.set(t, scalar(BVNeg(f.val(t.X).One()), t.Type()))
	case token.XOR:
		f.set(t, scalar(BVNot(f.val(t.X).One()), t.Type()))
	case token.NOT:
		f.set(t, scalar(Not(f.val(t.X).One()), t.Type()))
	default:
		abort("unsupported unary operator %s", t.Op)
	}
}

func (f *frame) convert(t *ssa.Convert) {
	x := f.x
	src := t.X.Type()
	dst := t.Type()
	v := f.materialize(f.val(t.X), src)
	if dw, _, ok := isIntType(dst); ok {
		if _, ssigned, ok2 := isIntType(src); ok2 {
			f.set(t, scalar(Resize(v.One(), dw, ssigned), dst))
			return
		}
		if isFloat(src) {
			abort("float to integer conversion")
		}
	}
	if isFloat(dst) {
		abort("conversion to floating point")
	}
	if isString(dst) {
		if sl, ok := src.Underlying().(*types.Slice); ok {
			if w, _, _ := isIntType(sl.Elem()); w == 8 {
				r := x.S.Declare("str", SInt)
				f.assume(IntLe(IntConst(0), r))
				f.assume(Eq(x.strLen(r), v.T[2]))
				f.assume(x.bytesEqStr(f.cur.heap, v, r))
				f.set(t, scalar(r, dst))
				return
			}
		}
		x.note("string conversion from %s is abstract", src)
		r := x.S.Declare("str", SInt)
		f.assume(IntLe(IntConst(0), r))
		f.set(t, scalar(r, dst))
		return
	}
	if sl, ok := dst.Underlying().(*types.Slice); ok && isString(src) {
		if w, _, _ := isIntType(sl.Elem()); w == 8 {
			ref := f.freshRef()
			h := f.cur.heap
			n := x.strLen(v.One())
			sv := Val{T: []Term{ref, BVInt(0, 64), n, n}, Typ: dst}
			// contents: fresh array constrained pointwise
			key := "M." + heapTypeName(sl.Elem()) + "[]"
			a := x.H.Get(h, key, wrapSort(SBV(8), 1))
			inner := x.S.Declare("strbytes", SArr(SBV(64), SBV(8)))
			h = x.H.SetAt(h, key, ref, Store(a, ref, inner))
			f.cur.heap = h
			f.assume(x.bytesEqStr(h, sv, v.One()))
			f.set(t, sv)
			return
		}
	}
	if _, ok := dst.Underlying().(*types.Pointer); ok {
		f.vals[t] = Val{T: v.T, Typ: dst, Loc: v.Loc}
		return
	}
	if len(v.T) == nLeaves(dst) {
		f.vals[t] = Val{T: v.T, Typ: dst}
		return
	}
	abort("unsupported conversion %s -> %s", src, dst)
}

// bytesEqStr states that the byte slice and the string have the same contents.
func (x *Exec) bytesEqStr(h *HeapState, sl Val, str Term) Term {
	key := "M.uint8[]"
	a := x.H.Get(h, key, wrapSort(SBV(8), 1))
	j := x.S.freshName("j")
	body := fmt.Sprintf("(forall ((%s (_ BitVec 64))) (=> (bvult %s %s) (= (select (select %s %s) (bvadd %s %s)) (strbyte %s %s))))",
		j, j, sl.T[2].S, a.S, sl.T[0].S, sl.T[1].S, j, str.S, j)
	return Term{body, SBool}
}

func (f *frame) makeInterface(t *ssa.MakeInterface) {
	x := f.x
	// an interface value is an opaque positive handle; the dynamic type is recorded
	x.S.DeclareFun("dyntype", []Sort{SInt}, SInt)
	x.opaqueInterior = true
	v := f.materialize(f.val(t.X), t.X.Type())
	x.opaqueInterior = false
	var r Term
	if len(v.T) == 1 && v.T[0].Sort == SInt {
		// pointer-like payload: handle determined by (type, payload)
		x.S.DeclareFun("mkiface", []Sort{SInt, SInt}, SInt)
		r = app(SInt, "mkiface", IntConst(x.typeID(t.X.Type())), v.T[0])
		x.S.DeclareFun("ifacepayload", []Sort{SInt}, SInt)
		f.assume(Eq(app(SInt, "ifacepayload", r), v.T[0]))
	} else {
		r = x.S.Declare("iface", SInt)
	}
	f.assume(IntLt(IntConst(0), r))
	f.assume(Eq(app(SInt, "dyntype", r), IntConst(x.typeID(t.X.Type()))))
	f.vals[t] = Val{T: []Term{r}, Typ: t.Type()}
}

var typeIDs = map[string]int64{}

func (x *Exec) typeID(t types.Type) int64 {
	k := typeKey(t)
	if id, ok := typeIDs[k]; ok {
		return id
	}
	id := int64(len(typeIDs) + 1)
	typeIDs[k] = id
	return id
}

func (f *frame) typeAssert(t *ssa.TypeAssert) {
	x := f.x
	x.S.DeclareFun("dyntype", []Sort{SInt}, SInt)
	v := f.val(t.X).One()
	if _, isIface := t.AssertedType.Underlying().(*types.Interface); isIface {
		// interface-to-interface: succeeds iff non-nil and implements; unknown => ok flag unconstrained
		okc := x.S.Declare("ok", SBool)
		if t.CommaOk {
			f.assume(Implies(okc, Not(Eq(v, IntConst(0)))))
			f.vals[t] = Val{T: []Term{Ite(okc, v, IntConst(0)), okc}, Typ: t.Type()}
		} else {
			x.note("single-result interface-to-interface type assertion assumed to succeed in %s", f.dispName)
			f.vals[t] = Val{T: []Term{v}, Typ: t.Type()}
		}
		return
	}
	is := And(Not(Eq(v, IntConst(0))), Eq(app(SInt, "dyntype", v), IntConst(x.typeID(t.AssertedType))))
	res := x.freshVal("ta", t.AssertedType)
	if len(res.T) == 1 && res.T[0].Sort == SInt {
		x.S.DeclareFun("ifacepayload", []Sort{SInt}, SInt)
		res.T[0] = app(SInt, "ifacepayload", v)
	}
	for _, fact := range x.wfFacts(t.AssertedType, res.T, f.cur.heap.next) {
		f.assume(Implies(is, fact))
	}
	if t.CommaOk {
		zero := zeroLeaves(t.AssertedType)
		out := make([]Term, 0, len(res.T)+1)
		for i := range res.T {
			out = append(out, Ite(is, res.T[i], zero[i]))
		}
		out = append(out, is)
		f.vals[t] = Val{T: out, Typ: t.Type()}
		return
	}
	f.safe("typeassert", t.Pos(), anyExpr, is, "type assertion holds")
	f.vals[t] = Val{T: res.T, Typ: t.Type()}
}

func (f *frame) indexAddr(t *ssa.IndexAddr) {
	x := f.x
	base := f.val(t.X)
	idx := f.toIndex(f.val(t.Index))
	switch u := t.X.Type().Underlying().(type) {
	case *types.Slice:
		f.safe("index", t.Pos(), isIndexExpr, BVCmp("bvult", idx, base.T[2]), "index within slice length")
		f.vals[t] = Val{Loc: sliceElemLoc(base.T[0], x.S.Define("ix", BVBin("bvadd", base.T[1], idx)), u.Elem()), Typ: t.Type()}
	case *types.Pointer:
		at := u.Elem().Underlying().(*types.Array)
		f.nonNil(base, t.Pos())
		if c, ok := idx.Const(); !ok || c.Cmp(big.NewInt(at.Len())) >= 0 {
			f.safe("index", t.Pos(), isIndexExpr, BVCmp("bvult", idx, BVInt(at.Len(), 64)), "index within array length")
		}
		f.vals[t] = Val{Loc: x.locOf(base, u.Elem()).Index(idx), Typ: t.Type()}
	default:
		abort("IndexAddr on %s", t.X.Type())
	}
}

func (f *frame) index(t *ssa.Index) {
	base := f.val(t.X)
	idx := f.toIndex(f.val(t.Index))
	switch u := t.X.Type().Underlying().(type) {
	case *types.Array:
		if c, ok := idx.Const(); !ok || c.Cmp(big.NewInt(u.Len())) >= 0 {
			f.safe("index", t.Pos(), isIndexExpr, BVCmp("bvult", idx, BVInt(u.Len(), 64)), "index within array length")
		}
		out := make([]Term, len(base.T))
		for k := range base.T {
			out[k] = Select(base.T[k], idx)
		}
		f.set(t, Val{T: out, Typ: t.Type()})
	case *types.Basic: // string
		f.safe("index", t.Pos(), isIndexExpr, BVCmp("bvult", idx, f.x.strLen(base.One())), "index within string length")
		f.set(t, scalar(f.x.strByte(base.One(), idx), t.Type()))
	default:
		abort("Index on %s", t.X.Type())
	}
}

func (f *frame) lookup(t *ssa.Lookup) {
	x := f.x
	if isString(t.X.Type()) {
		base := f.val(t.X)
		idx := f.toIndex(f.val(t.Index))
		f.safe("index", t.Pos(), isIndexExpr, BVCmp("bvult", idx, x.strLen(base.One())), "index within string length")
		f.set(t, scalar(x.strByte(base.One(), idx), t.Type()))
		return
	}
	// map lookup: unconstrained
	x.note("map contents are not modelled (updates ignored, lookups unconstrained)")
	mt := t.X.Type().Underlying().(*types.Map)
	v := x.freshVal("maplookup", mt.Elem())
	for _, fact := range x.wfFacts(mt.Elem(), v.T, f.cur.heap.next) {
		f.assume(fact)
	}
	// values of a type with a declared data-structure invariant satisfy it wherever they are found; and since map
	// contents are not modelled: an entry that is present is assumed to hold a constructed (non-nil) object
	invFacts := x.typeInvFacts(mt.Elem(), v.T, f.cur.heap)
	for _, fact := range invFacts {
		f.assume(fact)
	}
	if t.CommaOk {
		okc := x.S.Declare("ok", SBool)
		if len(invFacts) > 0 {
			if _, isPtr := mt.Elem().Underlying().(*types.Pointer); isPtr {
				x.note("ASSUMED: an entry found in a map of %s is non-nil (map contents are not modelled; the module stores constructor results only)", mt.Elem())
				f.assume(Implies(okc, Not(Eq(v.T[0], IntConst(0)))))
			}
		}
		f.vals[t] = Val{T: append(append([]Term{}, v.T...), okc), Typ: t.Type()}
		return
	}
	f.vals[t] = Val{T: v.T, Typ: t.Type()}
}

func (f *frame) slice(t *ssa.Slice) {
	x := f.x
	base := f.val(t.X)
	var arr, off, ln, cp Term
	var isStr bool
	fixedN := base.FixedN
	switch u := t.X.Type().Underlying().(type) {
	case *types.Slice:
		arr, off, ln, cp = base.T[0], base.T[1], base.T[2], base.T[3]
	case *types.Pointer:
		at := u.Elem().Underlying().(*types.Array)
		f.nonNil(base, t.Pos())
		loc := x.locOf(base, u.Elem())
		if !loc.Root || len(loc.Chain) != 0 || !strings.HasPrefix(loc.Prefix, "M.") {
			abort("slicing an array embedded in another object")
		}
		arr, off = loc.Ref, BVInt(0, 64)
		ln = BVInt(at.Len(), 64)
		cp = ln
		fixedN = at.Len()
	case *types.Basic:
		isStr = true
		ln = x.strLen(base.One())
		cp = ln
	default:
		abort("Slice on %s", t.X.Type())
	}
	lo := BVInt(0, 64)
	hi := ln
	mx := cp
	if t.Low != nil {
		lo = f.toIndex(f.val(t.Low))
	}
	if t.High != nil {
		hi = f.toIndex(f.val(t.High))
	}
	if t.Max != nil {
		mx = f.toIndex(f.val(t.Max))
	}
	var goals []Term
	goals = append(goals, BVCmp("bvule", lo, hi))
	if t.Max != nil {
		goals = append(goals, BVCmp("bvule", hi, mx), BVCmp("bvule", mx, cp))
	} else if isStr {
		goals = append(goals, BVCmp("bvule", hi, ln))
	} else {
		goals = append(goals, BVCmp("bvule", hi, cp))
	}
	f.safe("slice", t.Pos(), isSliceExpr, And(goals...), "slice bounds in range")
	if isStr {
		// substring: abstract handle with known length and bytes
		r := x.S.Declare("substr", SInt)
		f.assume(IntLe(IntConst(0), r))
		n := x.S.Define("n", BVBin("bvsub", hi, lo))
		f.assume(Eq(x.strLen(r), n))
		j := x.S.freshName("j")
		f.assume(Term{fmt.Sprintf("(forall ((%s (_ BitVec 64))) (=> (bvult %s %s) (= (strbyte %s %s) (strbyte %s (bvadd %s %s)))))", j, j, n.S, r.S, j, base.One().S, lo.S, j), SBool})
		f.set(t, scalar(r, t.Type()))
		return
	}
	f.set(t, Val{T: []Term{arr, BVBin("bvadd", off, lo), BVBin("bvsub", hi, lo), BVBin("bvsub", mx, lo)}, Typ: t.Type(), FixedN: fixedN})
}

func elemSize(t types.Type) int64 {
	sz := types.SizesFor("gc", "amd64")
	return sz.Sizeof(t)
}

func (f *frame) allocCheck(pos token.Pos, n Term, elem types.Type, what string) {
	x := f.x
	if x.allocBound == nil {
		return
	}
	if _, ok := n.Const(); ok {
		return
	}
	sz := elemSize(elem)
	if sz == 0 {
		sz = 1
	}
	wide := BVBin("bvmul", Resize(n, 128, false), BVInt(sz, 128))
	goal := BVCmp("bvule", wide, Resize(*x.allocBound, 128, false))
	label := f.srcLabel("alloc", pos, isCallExpr)
	x.addObligation("ALLOC", f.dispName, label, what+" is bounded by the function's alloc clause", f.cur.pc, goal, nil)
}

func (f *frame) makeSlice(t *ssa.MakeSlice) {
	ln := f.toIndex(f.val(t.Len))
	cp := f.toIndex(f.val(t.Cap))
	elem := t.Type().Underlying().(*types.Slice).Elem()
	_, lc := ln.Const()
	_, cc := cp.Const()
	if !lc || !cc {
		lim := BVConst(new(big.Int).Lsh(big.NewInt(1), 47), 64)
		f.safe("make", t.Pos(), isCallExpr, And(BVCmp("bvule", ln, cp), BVCmp("bvult", cp, lim)), "make: 0 <= len <= cap and the size is allocatable")
	}
	f.allocCheck(t.Pos(), cp, elem, "make capacity")
	f.vals[t] = f.newSlice(elem, ln, cp, t.Type())
}

// newSlice allocates a zeroed backing array.
func (f *frame) newSlice(elem types.Type, ln, cp Term, typ types.Type) Val {
	x := f.x
	ref := f.freshRef()
	h := f.cur.heap
	for _, lf := range leaves(elem) {
		key := "M." + heapTypeName(elem) + "[]" + lf.Path
		a := x.H.Get(h, key, wrapSort(lf.Sort, 1))
		h = x.H.SetAt(h, key, ref, Store(a, ref, ConstArray(SArr(SBV(64), lf.Sort), zeroOfSort(lf.Sort))))
	}
	f.cur.heap = h
	return Val{T: []Term{ref, BVInt(0, 64), ln, cp}, Typ: typ}
}

// typeInvFacts: declared data-structure invariants (`typeinv T pred`) of every non-nil *T among the leaves of a
// value. They are ASSUMED (established by constructors outside the prover's reach) and listed as assumptions.
func (x *Exec) typeInvFacts(t types.Type, vals []Term, heap *HeapState) []Term {
	var out []Term
	switch u := t.Underlying().(type) {
	case *types.Pointer:
		if n, ok := u.Elem().(*types.Named); ok && n.Obj().Pkg() != nil {
			key := n.Obj().Pkg().Path() + "." + n.Obj().Name()
			if pred, ok := x.W.Contracts.TypeInvs[key]; ok {
				sf := x.W.Contracts.Specs[n.Obj().Pkg().Path()+"."+pred]
				if sf != nil {
					ctx := &EvalCtx{X: x, PkgPath: n.Obj().Pkg().Path(), Scope: n.Obj().Pkg().Scope(), Vars: map[string]Val{}, Heap: heap, Old: heap}
					func() {
						defer func() { recover() }()
						r := ctx.callSpecWithArgs(sf, []Val{{T: []Term{vals[0]}, Typ: t}})
						out = append(out, Implies(Not(Eq(vals[0], IntConst(0))), r.One()))
						x.note("ASSUMED data-structure invariant %s of every *%s (established by its constructor, outside the prover's reach)", pred, n.Obj().Name())
					}()
				}
			}
		}
	case *types.Struct:
		lo := 0
		for i := 0; i < u.NumFields(); i++ {
			n := nLeaves(u.Field(i).Type())
			out = append(out, x.typeInvFacts(u.Field(i).Type(), vals[lo:lo+n], heap)...)
			lo += n
		}
	case *types.Tuple:
		lo := 0
		for i := 0; i < u.Len(); i++ {
			n := nLeaves(u.At(i).Type())
			out = append(out, x.typeInvFacts(u.At(i).Type(), vals[lo:lo+n], heap)...)
			lo += n
		}
	}
	return out
}

type implicitInv struct {
	name string
	t    Term
}

// implicitInvs: the declared type invariants of the verified function's pointer parameters, used as implicit
// (checked) invariants of every loop.
func (x *Exec) implicitInvs(heap *HeapState) []implicitInv {
	if len(x.W.Contracts.TypeInvs) == 0 || x.topParams == nil {
		return nil
	}
	var out []implicitInv
	for i, p := range x.fn.Params {
		if _, ok := p.Type().Underlying().(*types.Pointer); !ok {
			continue
		}
		save := x.notes
		x.notes = map[string]bool{}
		facts := x.typeInvFacts(p.Type(), x.topParams[i].T, heap)
		x.notes = save
		for _, f := range facts {
			out = append(out, implicitInv{p.Name(), f})
		}
	}
	return out
}
