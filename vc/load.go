package main

import (
	"fmt"
	"go/ast"
	"go/types"
	"os"
	"path/filepath"
	"sort"
	"strings"

	"golang.org/x/tools/go/packages"
	"golang.org/x/tools/go/ssa"
	"golang.org/x/tools/go/ssa/ssautil"
)

const modulePath = "github.com/tonkeeper/tongo"

type World struct {
	RepoDir   string
	VerifDir  string
	Pkgs      []*packages.Package
	Prog      *ssa.Program
	byPath    map[string]*packages.Package
	byName    map[string]*types.Package
	ssaPkgs   map[string]*ssa.Package
	Contracts *ContractSet
	storedGlobals map[*ssa.Global]bool
	LoadSecs  float64
}

// LoadWorld loads the given package patterns from repoDir (tag verif), overlaying lemma files
// from verifDir/lemmas/<rel pkg dir>/*.go into the package directories.
func LoadWorld(repoDir, verifDir string, patterns []string) (*World, error) {
	w := &World{RepoDir: repoDir, VerifDir: verifDir, byPath: map[string]*packages.Package{}, byName: map[string]*types.Package{}, ssaPkgs: map[string]*ssa.Package{}, Contracts: NewContractSet()}
	overlay := map[string][]byte{}
	lemmaFiles := map[string]string{} // overlay path -> source path
	lemRoot := filepath.Join(verifDir, "lemmas")
	filepath.Walk(lemRoot, func(p string, info os.FileInfo, err error) error {
		if err != nil || info.IsDir() || !strings.HasSuffix(p, ".go") {
			return nil
		}
		rel, _ := filepath.Rel(lemRoot, p)
		dst := filepath.Join(repoDir, filepath.Dir(rel), "zz_lemma_verif_"+filepath.Base(rel))
		data, err := os.ReadFile(p)
		if err == nil {
			overlay[dst] = data
			lemmaFiles[dst] = p
		}
		return nil
	})
	cfg := &packages.Config{
		Mode: packages.NeedName | packages.NeedFiles | packages.NeedCompiledGoFiles | packages.NeedImports |
			packages.NeedDeps | packages.NeedTypes | packages.NeedSyntax | packages.NeedTypesInfo | packages.NeedTypesSizes | packages.NeedModule,
		Dir:        repoDir,
		BuildFlags: []string{"-tags=verif"},
		Overlay:    overlay,
		Env:        append(os.Environ(), "GOFLAGS=-mod=mod", "GOPROXY=off", "GOSUMDB=off", "GOTOOLCHAIN=local"),
	}
	pkgs, err := packages.Load(cfg, patterns...)
	if err != nil {
		return nil, err
	}
	var errs []string
	packages.Visit(pkgs, nil, func(p *packages.Package) {
		for _, e := range p.Errors {
			errs = append(errs, e.Error())
		}
	})
	if len(errs) > 0 {
		return nil, fmt.Errorf("package load errors:\n%s", strings.Join(errs, "\n"))
	}
	w.Pkgs = pkgs
	prog, _ := ssautil.AllPackages(pkgs, ssa.GlobalDebug|ssa.InstantiateGenerics)
	w.Prog = prog
	packages.Visit(pkgs, nil, func(p *packages.Package) {
		w.byPath[p.PkgPath] = p
		if _, dup := w.byName[p.Name]; !dup || strings.HasPrefix(p.PkgPath, modulePath) {
			w.byName[p.Name] = p.Types
		}
		sp := prog.Package(p.Types)
		if sp != nil {
			w.ssaPkgs[p.PkgPath] = sp
			if strings.HasPrefix(p.PkgPath, modulePath) {
				sp.Build()
			}
		}
	})
	// contracts: zz_contracts_verif.go in every module package dir + lemma files
	var paths []string
	for path := range w.byPath {
		paths = append(paths, path)
	}
	sort.Strings(paths)
	for _, path := range paths {
		p := w.byPath[path]
		if !strings.HasPrefix(path, modulePath) || len(p.GoFiles) == 0 {
			continue
		}
		dir := filepath.Dir(p.GoFiles[0])
		cf := filepath.Join(dir, "zz_contracts_verif.go")
		if _, err := os.Stat(cf); err == nil {
			if err := w.Contracts.ParseContractFile(cf, path); err != nil {
				return nil, err
			}
		}
		for dst, src := range lemmaFiles {
			if filepath.Dir(dst) == dir {
				if err := w.Contracts.ParseContractText(string(overlay[dst]), src, path); err != nil {
					return nil, err
				}
			}
		}
	}
	return w, nil
}

func (w *World) pkgByName(name string) *types.Package { return w.byName[name] }

// FindFunc resolves a contract to its SSA function.
func (w *World) FindFunc(fc *FuncContract) *ssa.Function {
	sp := w.ssaPkgs[fc.PkgPath]
	if sp == nil {
		return nil
	}
	if fc.Recv == "" {
		return sp.Func(fc.Name)
	}
	tn, ok := sp.Pkg.Scope().Lookup(fc.Recv).(*types.TypeName)
	if !ok {
		return nil
	}
	for _, t := range []types.Type{tn.Type(), types.NewPointer(tn.Type())} {
		ms := w.Prog.MethodSets.MethodSet(t)
		for i := 0; i < ms.Len(); i++ {
			sel := ms.At(i)
			if sel.Obj().Name() == fc.Name && sel.Obj().Pkg() == sp.Pkg {
				f := w.Prog.MethodValue(sel)
				if f != nil && f.Synthetic != "" {
					// wrapper (e.g. pointer receiver wrapper for value method): use the declared one
					if fn, ok := sel.Obj().(*types.Func); ok {
						if df := w.Prog.FuncValue(fn); df != nil {
							return df
						}
					}
				}
				return f
			}
		}
	}
	return nil
}

// ContractFor returns the contract attached to an SSA function, if any.
func (w *World) ContractFor(fn *ssa.Function) *FuncContract {
	if fn == nil || fnPkg(fn) == nil {
		return nil
	}
	key := fnPkg(fn).Pkg.Path() + "."
	if fn.Signature.Recv() != nil {
		t := fn.Signature.Recv().Type()
		if p, ok := t.(*types.Pointer); ok {
			t = p.Elem()
		}
		if n, ok := t.(*types.Named); ok {
			key += n.Obj().Name() + "."
		}
	}
	key += fn.Name()
	return w.Contracts.Funcs[key]
}

// globalStored reports whether any function of the loaded module packages may write to g
// (directly, through an element/field address, or lets its address escape).
func (w *World) globalStored(g *ssa.Global) bool {
	if w.storedGlobals == nil {
		w.storedGlobals = map[*ssa.Global]bool{}
		for path, sp := range w.ssaPkgs {
			if !strings.HasPrefix(path, modulePath) {
				continue
			}
			for _, m := range sp.Members {
				if fn, ok := m.(*ssa.Function); ok {
					w.scanStores(fn)
				}
				if tn, ok := m.(*ssa.Type); ok {
					for _, t := range []types.Type{tn.Type(), types.NewPointer(tn.Type())} {
						ms := w.Prog.MethodSets.MethodSet(t)
						for i := 0; i < ms.Len(); i++ {
							if f := w.Prog.MethodValue(ms.At(i)); f != nil {
								w.scanStores(f)
							}
						}
					}
				}
			}
		}
	}
	return w.storedGlobals[g]
}

func (w *World) scanStores(fn *ssa.Function) {
	if fn.Name() == "init" {
		return
	}
	for _, b := range fn.Blocks {
		for _, in := range b.Instrs {
			var ops []*ssa.Value
			switch t := in.(type) {
			case *ssa.Store:
				if g := rootGlobal(t.Addr); g != nil {
					w.storedGlobals[g] = true
				}
				if g, ok := t.Val.(*ssa.Global); ok {
					w.storedGlobals[g] = true
				}
			case *ssa.UnOp, *ssa.FieldAddr, *ssa.IndexAddr, *ssa.DebugRef:
				// reads / address computations
			default:
				ops = in.Operands(ops)
				for _, op := range ops {
					if op == nil || *op == nil {
						continue
					}
					if g, ok := (*op).(*ssa.Global); ok {
						w.storedGlobals[g] = true // address escapes
					}
				}
			}
		}
	}
	for _, af := range fn.AnonFuncs {
		w.scanStores(af)
	}
}

func rootGlobal(v ssa.Value) *ssa.Global {
	for {
		switch t := v.(type) {
		case *ssa.Global:
			return t
		case *ssa.FieldAddr:
			v = t.X
		case *ssa.IndexAddr:
			v = t.X
		default:
			return nil
		}
	}
}

// globalInit finds the initializer expression of a package-level variable.
func (w *World) globalInit(g *ssa.Global) (ast.Expr, *packages.Package) {
	p := w.byPath[g.Pkg.Pkg.Path()]
	if p == nil {
		return nil, nil
	}
	for _, f := range p.Syntax {
		for _, d := range f.Decls {
			gd, ok := d.(*ast.GenDecl)
			if !ok {
				continue
			}
			for _, sp := range gd.Specs {
				vs, ok := sp.(*ast.ValueSpec)
				if !ok {
					continue
				}
				for i, n := range vs.Names {
					if n.Name == g.Name() && p.TypesInfo.Defs[n] == g.Object() {
						if i < len(vs.Values) {
							return vs.Values[i], p
						}
						return nil, p
					}
				}
			}
		}
	}
	return nil, p
}

// fnPkg is the package of a function; instantiations of generic functions have no package of their own in go/ssa
// and belong to the package of their origin.
func fnPkg(fn *ssa.Function) *ssa.Package {
	if fn.Pkg != nil {
		return fn.Pkg
	}
	if o := fn.Origin(); o != nil {
		return o.Pkg
	}
	return nil
}
