package main

import (
	"flag"
	"fmt"
	"os"
	"path/filepath"
	"sort"
	"strings"
	"sync"
	"time"
)

func main() {
	if len(os.Args) < 2 {
		fmt.Fprintln(os.Stderr, "usage: govc <verify|check|selftest> ...")
		os.Exit(2)
	}
	switch os.Args[1] {
	case "verify":
		cmdVerify(os.Args[2:])
	case "check":
		cmdCheck(os.Args[2:])
	default:
		fmt.Fprintln(os.Stderr, "unknown command", os.Args[1])
		os.Exit(2)
	}
}

// solveAll discharges obligations in parallel.
func solveAll(obls []*Obligation, timeoutS int) {
	var wg sync.WaitGroup
	for _, ob := range obls {
		if ob.Result.Status != "" {
			continue
		}
		wg.Add(1)
		go func(ob *Obligation) {
			defer wg.Done()
			ob.Result = Solve(ob.Query(), timeoutS, true)
		}(ob)
	}
	wg.Wait()
}

func (ob *Obligation) OK() bool {
	if ob.Expect == "sat" {
		return ob.Result.Status == "sat"
	}
	return ob.Result.Status == "unsat"
}

// cmdVerify is the development entry point: verify contracts and print a table.
func cmdVerify(args []string) {
	fs := flag.NewFlagSet("verify", flag.ExitOnError)
	repo := fs.String("repo", "/repo", "repository root")
	verif := fs.String("verif", "/verif", "verification root")
	pkgs := fs.String("pkgs", "./boc", "comma-separated package patterns")
	prop := fs.String("prop", "", "only contracts tagged with this property")
	only := fs.String("func", "", "only functions whose key contains this substring")
	dump := fs.String("dump", "", "directory to dump failing queries")
	timeout := fs.Int("timeout", 20, "per-query timeout (s)")
	verbose := fs.Bool("v", false, "list every obligation")
	fs.Parse(args)
	start := time.Now()
	w, err := LoadWorld(*repo, *verif, strings.Split(*pkgs, ","))
	if err != nil {
		fmt.Fprintln(os.Stderr, "load:", err)
		os.Exit(2)
	}
	fmt.Printf("loaded in %.1fs; %d contracts, %d spec functions\n", time.Since(start).Seconds(), len(w.Contracts.Funcs), len(w.Contracts.Specs))
	var results []*FuncResult
	var all []*Obligation
	for _, fc := range w.Contracts.Order {
		if *prop != "" && !fc.HasProp(*prop) {
			continue
		}
		if *only != "" && !strings.Contains(fc.Key(), *only) {
			continue
		}
		t0 := time.Now()
		r := VerifyFunction(w, fc)
		r.GenSecs = time.Since(t0).Seconds()
		results = append(results, r)
		all = append(all, r.Obls...)
	}
	solveAll(all, *timeout)
	bad := 0
	for _, r := range results {
		ok, n := 0, 0
		for _, ob := range r.Obls {
			n++
			if ob.OK() {
				ok++
			}
		}
		status := "ok"
		if r.Aborted != "" {
			status = "OUT-OF-REACH: " + r.Aborted
		} else if r.Trusted {
			status = "trusted"
		} else if ok != n {
			status = "FAILED"
		}
		fmt.Printf("%-60s %3d/%3d  gen %.1fs  %s\n", r.Name, ok, n, r.GenSecs, status)
		for _, ob := range r.Obls {
			if !ob.OK() || *verbose {
				fmt.Printf("    %-8s %-7s %5.1fs %-12s %s\n", ob.Result.Status, ob.Class, ob.Result.Secs, ob.Result.Solver, ob.Name)
			}
			if !ob.OK() {
				bad++
				fmt.Printf("             %s\n", ob.Text)
				m := summarizeModel(ob)
				var ks []string
				for k := range m {
					ks = append(ks, k)
				}
				sort.Strings(ks)
				for _, k := range ks {
					fmt.Printf("             %s = %s\n", k, m[k])
				}
				if *dump != "" {
					os.MkdirAll(*dump, 0o755)
					fn := filepath.Join(*dump, sanitize(ob.Name)+".smt2")
					os.WriteFile(fn, []byte(ob.Query()+"(check-sat)\n(get-model)\n"), 0o644)
				}
			}
		}
		if *verbose {
			for _, n := range r.Notes {
				fmt.Printf("    note: %s\n", n)
			}
		}
	}
	fmt.Printf("total %.1fs, %d obligations, %d not discharged\n", time.Since(start).Seconds(), len(all), bad)
	if bad > 0 {
		os.Exit(1)
	}
}

