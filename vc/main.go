package main

import (
	"flag"
	"fmt"
	"os"
	"path/filepath"
	"sort"
	"strings"
	"sync"
	"time"
)

func main() {
	if len(os.Args) < 2 {
		fmt.Fprintln(os.Stderr, "usage: govc <verify|check|selftest> ...")
		os.Exit(2)
	}
	switch os.Args[1] {
	case "verify":
		cmdVerify(os.Args[2:])
	case "sweep":
		cmdSweep(os.Args[2:])
	case "check":
		cmdCheck(os.Args[2:])
	default:
		fmt.Fprintln(os.Stderr, "unknown command", os.Args[1])
		os.Exit(2)
	}
}

// solveAll discharges obligations in parallel.
func solveAll(obls []*Obligation, timeoutS int) {
	var wg sync.WaitGroup
	for _, ob := range obls {
		if ob.Result.Status != "" {
			continue
		}
		wg.Add(1)
		go func(ob *Obligation) {
			defer wg.Done()
			solveObligation(ob, timeoutS)
		}(ob)
	}
	wg.Wait()
}

func (ob *Obligation) OK() bool {
	if ob.Expect == "sat" {
		if strings.Contains(ob.Name, "/VAC/return") {
			return true // informational: dead returns are legitimate; see FuncResult.Reachable
		}
		return ob.Result.Status == "sat"
	}
	return ob.Result.Status == "unsat"
}

// cmdVerify is the development entry point: verify contracts and print a table.
func cmdVerify(args []string) {
	fs := flag.NewFlagSet("verify", flag.ExitOnError)
	repo := fs.String("repo", "/repo", "repository root")
	verif := fs.String("verif", "/verif", "verification root")
	pkgs := fs.String("pkgs", "./boc", "comma-separated package patterns")
	prop := fs.String("prop", "", "only contracts tagged with this property")
	only := fs.String("func", "", "only functions whose key contains this substring")
	dump := fs.String("dump", "", "directory to dump failing queries")
	timeout := fs.Int("timeout", 20, "per-query timeout (s)")
	verbose := fs.Bool("v", false, "list every obligation")
	dumpAll := fs.Bool("dumpall", false, "dump every query (with --dump)")
	explain := fs.Bool("explain", false, "for failing conjunctive goals, report which conjuncts fail")
	fs.Parse(args)
	start := time.Now()
	w, err := LoadWorld(*repo, *verif, strings.Split(*pkgs, ","))
	if err != nil {
		fmt.Fprintln(os.Stderr, "load:", err)
		os.Exit(2)
	}
	fmt.Printf("loaded in %.1fs; %d contracts, %d spec functions\n", time.Since(start).Seconds(), len(w.Contracts.Funcs), len(w.Contracts.Specs))
	var results []*FuncResult
	var all []*Obligation
	for _, fc := range w.Contracts.Order {
		if *prop != "" && !fc.HasProp(*prop) {
			continue
		}
		if len(fc.Props) == 0 {
			continue // helper contracts (inline markers, interface assumptions) are not checked on their own
		}
		if *only != "" && !strings.Contains(fc.Key(), *only) {
			continue
		}
		t0 := time.Now()
		r := VerifyFunction(w, fc)
		r.GenSecs = time.Since(t0).Seconds()
		results = append(results, r)
		all = append(all, r.Obls...)
	}
	solveAll(all, *timeout)
	bad := 0
	for _, r := range results {
		ok, n := 0, 0
		for _, ob := range r.Obls {
			n++
			if ob.OK() {
				ok++
			}
		}
		status := "ok"
		if r.Aborted != "" {
			status = "OUT-OF-REACH: " + r.Aborted
		} else if r.Trusted {
			status = "trusted"
		} else if ok != n {
			status = "FAILED"
		}
		fmt.Printf("%-60s %3d/%3d  gen %.1fs  %s\n", r.Name, ok, n, r.GenSecs, status)
		for _, ob := range r.Obls {
			if !ob.OK() || *verbose {
				fmt.Printf("    %-8s %-7s %5.1fs %-12s %s\n", ob.Result.Status, ob.Class, ob.Result.Secs, ob.Result.Solver, ob.Name)
			}
			if *dumpAll && *dump != "" && ob.script != nil {
				os.MkdirAll(*dump, 0o755)
				os.WriteFile(filepath.Join(*dump, sanitize(ob.Name)+".smt2"), []byte(ob.Query()+"(check-sat)\n"), 0o644)
			}
			if !ob.OK() {
				bad++
				fmt.Printf("             %s\n", ob.Text)
				m := summarizeModel(ob)
				var ks []string
				for k := range m {
					ks = append(ks, k)
				}
				sort.Strings(ks)
				for _, k := range ks {
					fmt.Printf("             %s = %s\n", k, m[k])
				}
				if *explain && ob.script != nil {
					shown := 0
					for i, part := range splitGoal(ob.Goal) {
						if shown >= 3 {
							break
						}
						sub := *ob
						sub.Goal = part
						r := Solve(sub.Query(), *timeout, false)
						if r.Status != "unsat" {
							txt := part.S
							if len(txt) > 300 {
								txt = txt[:300]
							}
							fmt.Printf("             conjunct %d: %s: %s\n", i, r.Status, txt)
							shown++
						}
					}
				}
				if *dump != "" {
					os.MkdirAll(*dump, 0o755)
					fn := filepath.Join(*dump, sanitize(ob.Name)+".smt2")
					os.WriteFile(fn, []byte(ob.Query()+"(check-sat)\n(get-model)\n"), 0o644)
				}
			}
		}
		if *verbose {
			for _, n := range r.Notes {
				fmt.Printf("    note: %s\n", n)
			}
		}
	}
	fmt.Printf("total %.1fs, %d obligations, %d not discharged\n", time.Since(start).Seconds(), len(all), bad)
	if bad > 0 {
		os.Exit(1)
	}
}


// solveObligation tries the goal as one query with a short budget and, when that is not decided,
// splits it: conjuncts of the goal are discharged separately, and so are the alternative paths
// reaching the program point (each sub-query with the full budget).
func solveObligation(ob *Obligation, timeoutS int) {
	if ob.Expect == "sat" {
		tmo := timeoutS
		if strings.Contains(ob.Name, "/VAC/return") && tmo > 5 {
			tmo = 5 // informational reachability probes get a short budget
		}
		ob.Result = Solve(ob.Query(), tmo, true)
		return
	}
	parts := splitGoal(ob.Goal)
	var pcParts []Term
	if ob.script != nil {
		pcParts = ob.script.pcDisjuncts(ob.PC)
	}
	if len(parts) < 2 && len(pcParts) < 2 {
		q := ob.Query()
		term, ks := caseSplitCandidate(q)
		if term == "" {
			ob.Result = Solve(q, timeoutS, true)
			return
		}
		short := timeoutS / 6
		if short < 3 {
			short = 3
		}
		r := Solve(q, short, true)
		if r.Status == "unsat" || r.Status == "sat" {
			ob.Result = r
			return
		}
		// case analysis on a term the assumptions are guarded by (from bounded-quantifier expansion)
		var cases []string
		var none []string
		for _, k := range ks {
			cases = append(cases, "(assert (= "+term+" "+k+"))")
			none = append(none, "(not (= "+term+" "+k+"))")
		}
		cases = append(cases, "(assert (and "+strings.Join(none, " ")+"))")
		results := make([]SolverResult, len(cases))
		var wg sync.WaitGroup
		for i, c := range cases {
			wg.Add(1)
			go func(i int, c string) {
				defer wg.Done()
				sub := *ob
				sub.extra = append(append([]string{}, ob.extra...), c)
				results[i] = Solve(sub.Query(), timeoutS, true)
			}(i, c)
		}
		wg.Wait()
		agg := SolverResult{Status: "unsat"}
		slowest := 0.0
		for _, pr := range results {
			if pr.Secs > slowest {
				slowest = pr.Secs
			}
			if pr.Status == "sat" {
				agg = pr
				break
			}
			if pr.Status != "unsat" {
				agg.Status, agg.Raw, agg.Solver = pr.Status, pr.Raw, pr.Solver
			}
		}
		if agg.Status == "unsat" {
			agg.Solver = fmt.Sprintf("cases:%d/%s", len(cases), results[0].Solver)
		}
		agg.Secs = r.Secs + slowest
		ob.Result = agg
		return
	}
	short := timeoutS / 6
	if short < 3 {
		short = 3
	}
	if len(parts) >= 8 && short > 3 {
		short = 3 // a goal expanded from bounded quantifiers: the pieces are what the solvers are good at
	}
	r := Solve(ob.Query(), short, true)
	if r.Status == "unsat" || r.Status == "sat" {
		ob.Result = r
		return
	}
	if len(pcParts) < 2 {
		pcParts = []Term{True}
	}
	type sub struct {
		goal Term
		path Term
	}
	var subs []sub
	for _, g := range parts {
		for _, p := range pcParts {
			subs = append(subs, sub{g, p})
		}
	}
	results := make([]SolverResult, len(subs))
	var wg sync.WaitGroup
	for i, sb := range subs {
		wg.Add(1)
		go func(i int, sb sub) {
			defer wg.Done()
			q := *ob
			q.Goal = sb.goal
			if sb.path.S != "true" {
				q.extra = append(append([]string{}, ob.extra...), "(assert "+sb.path.S+")")
			}
			results[i] = Solve(q.Query(), timeoutS, true)
		}(i, sb)
	}
	wg.Wait()
	agg := SolverResult{Status: "unsat"}
	slowest := 0.0
	for _, pr := range results {
		if pr.Secs > slowest {
			slowest = pr.Secs
		}
		if pr.Status == "sat" {
			agg = pr
			break
		}
		if pr.Status != "unsat" {
			agg.Status, agg.Raw, agg.Solver = pr.Status, pr.Raw, pr.Solver
		}
	}
	if agg.Status == "unsat" {
		agg.Solver = fmt.Sprintf("split:%dx%d/%s", len(parts), len(pcParts), results[0].Solver)
	}
	agg.Secs = r.Secs + slowest
	ob.Result = agg
}

// splitGoal splits `(and a b ...)` and `(=> g (and a b ...))` into separately provable goals.
func splitGoal(g Term) []Term {
	s := g.S
	if strings.HasPrefix(s, "(and ") {
		var out []Term
		for _, p := range sexpArgs(s) {
			out = append(out, splitGoal(Term{p, SBool})...)
		}
		return out
	}
	if strings.HasPrefix(s, "(=> ") {
		args := sexpArgs(s)
		if len(args) == 2 {
			inner := splitGoal(Term{args[1], SBool})
			if len(inner) > 1 {
				var out []Term
				for _, p := range inner {
					out = append(out, Term{"(=> " + args[0] + " " + p.S + ")", SBool})
				}
				return out
			}
		}
	}
	return []Term{g}
}

// sexpArgs returns the top-level arguments of "(op a b c)".
func sexpArgs(s string) []string {
	s = s[1 : len(s)-1]
	i := strings.IndexByte(s, ' ')
	if i < 0 {
		return nil
	}
	s = s[i+1:]
	var out []string
	d := 0
	start := -1
	for j := 0; j < len(s); j++ {
		c := s[j]
		switch {
		case c == '(':
			if d == 0 && start < 0 {
				start = j
			}
			d++
		case c == ')':
			d--
			if d == 0 && start >= 0 {
				out = append(out, s[start:j+1])
				start = -1
			}
		case c == ' ':
			if d == 0 && start >= 0 {
				out = append(out, s[start:j])
				start = -1
			}
		default:
			if d == 0 && start < 0 {
				start = j
			}
		}
	}
	if start >= 0 {
		out = append(out, s[start:])
	}
	return out
}

// caseSplitCandidate finds a term T that guards several assumptions as `(=> (= T const) ...)` with
// different constants (the shape bounded-quantifier expansion produces) and returns T with the constants.
func caseSplitCandidate(q string) (string, []string) {
	found := map[string]map[string]bool{}
	const pat = "(=> (= "
	for i := 0; ; {
		j := strings.Index(q[i:], pat)
		if j < 0 {
			break
		}
		start := i + j + len(pat)
		i = start
		end := start + sortTokenEnd(q[start:])
		term := q[start:end]
		rest := q[end:]
		if !strings.HasPrefix(rest, " (_ bv") {
			continue
		}
		ce := 1 + sortTokenEnd(rest[1:])
		k := rest[1:ce]
		if !strings.HasPrefix(rest[ce:], ")") {
			continue
		}
		if found[term] == nil {
			found[term] = map[string]bool{}
		}
		found[term][k] = true
	}
	best := ""
	for t, ks := range found {
		if len(ks) >= 3 && len(ks) <= 16 && (best == "" || len(ks) > len(found[best]) || (len(ks) == len(found[best]) && t < best)) {
			best = t
		}
	}
	if best == "" {
		return "", nil
	}
	var ks []string
	for k := range found[best] {
		ks = append(ks, k)
	}
	sort.Strings(ks)
	return best, ks
}
