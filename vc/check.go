package main

// `govc check --prop <id>`: the registered per-property check.
// Loads the packages the property names from the repository's working tree, generates the
// obligations of every contract tagged with the property, discharges them, runs the bounded
// stand-ins, writes evidence, prints VIOLATION / KNOWN-FINDING lines.

import (
	"encoding/json"
	"flag"
	"fmt"
	"os"
	"path/filepath"
	"sort"
	"strconv"
	"strings"
	"time"
)

type PropConfig struct {
	Pkgs        []string `json:"pkgs"`
	// ExtraPkgGroups: package sets loaded separately, after the obligations of Pkgs have been generated; only contracts
	// of the packages named in a group are verified from it. Keeps the queries of the main set byte-identical when a
	// package is added (slow proofs are sensitive to declaration order).
	ExtraPkgGroups [][]string `json:"extra_pkg_groups"`
	Standins    []Standin `json:"standins"`
	TrustedBase []string `json:"trusted_base"`
	Assumptions []string `json:"assumptions"`
	MinObligations int   `json:"min_obligations"`
	ThoroughTimeout int  `json:"thorough_timeout"`
}

type Standin struct {
	Pkg    string `json:"pkg"`    // package dir relative to repo, e.g. "boc"
	File   string `json:"file"`   // file under /verif/standins/<pkg>/
	Run    string `json:"run"`    // -run regexp
	Bound  string `json:"bound"`  // human-readable bound
	For    string `json:"for"`    // functions it stands in for
	Tiers  string `json:"tiers"`  // "both" (default) | "thorough"
}

type KnownFinding struct {
	Property   string `json:"property"`
	Obligation string `json:"obligation"`
	What       string `json:"what"`
	Status     string `json:"status"` // "finding" | "fixed"
	Commit     string `json:"commit,omitempty"`
	Witness    string `json:"witness,omitempty"`
}

type violation struct {
	Obligation string
	Replay     string
	Reproduced bool
}

func cmdCheck(args []string) {
	fs := flag.NewFlagSet("check", flag.ExitOnError)
	repo := fs.String("repo", "/repo", "repository root")
	verif := fs.String("verif", "/verif", "verification root")
	prop := fs.String("prop", "", "property id")
	tier := fs.String("tier", "", "quick | thorough")
	evidenceDir := fs.String("evidence", "", "evidence directory (default <verif>/evidence)")
	noStandins := fs.Bool("no-standins", false, "skip bounded stand-ins (development)")
	replaysFlag := fs.String("replays", "", "directory for replay files (default <verif>/replays)")
	fs.Parse(args)
	if *prop == "" {
		fmt.Fprintln(os.Stderr, "check: --prop required")
		os.Exit(2)
	}
	if *tier == "" {
		*tier = os.Getenv("VERIF_TIER")
	}
	if *tier != "thorough" {
		*tier = "quick"
	}
	seed := int64(1)
	if s := os.Getenv("VERIF_SEED"); s != "" {
		if v, err := strconv.ParseInt(s, 10, 64); err == nil {
			seed = v
		}
	}
	if *evidenceDir == "" {
		*evidenceDir = filepath.Join(*verif, "evidence")
	}
	start := time.Now()
	var cfgs map[string]PropConfig
	data, err := os.ReadFile(filepath.Join(*verif, "props.json"))
	if err != nil {
		fatal("props.json: %v", err)
	}
	if err := json.Unmarshal(data, &cfgs); err != nil {
		fatal("props.json: %v", err)
	}
	cfg, ok := cfgs[*prop]
	if !ok {
		fatal("property %s is not configured (not claimed)", *prop)
	}
	var known []KnownFinding
	if data, err := os.ReadFile(filepath.Join(*verif, "known_findings.json")); err == nil {
		if err := json.Unmarshal(data, &known); err != nil {
			fatal("known_findings.json: %v", err)
		}
	}
	timeout := 120 // CPU seconds per solver run; the slowest proofs need about 25 s on an idle machine
	if *tier == "thorough" {
		timeout = 300
		if cfg.ThoroughTimeout > 0 {
			timeout = cfg.ThoroughTimeout
		}
	}

	w, err := LoadWorld(*repo, *verif, cfg.Pkgs)
	replayDir := filepath.Join(*verif, "replays", *prop)
	if *replaysFlag != "" {
		replayDir = filepath.Join(*replaysFlag, *prop)
	}
	os.MkdirAll(replayDir, 0o755)
	var viols []violation
	if err != nil {
		// the tree does not load (does not compile under the verif tag): nothing can be established
		p := filepath.Join(replayDir, "load-error.json")
		writeJSON(p, map[string]interface{}{"obligation": "load", "error": err.Error()})
		fmt.Printf("VIOLATION property=%s replay=%s no-failing-input-found\n", *prop, p)
		writeEvidence(*evidenceDir, *prop, *tier, seed, nil, nil, nil, cfg, time.Since(start).Seconds(), 1, nil)
		os.Exit(1)
	}
	var results []*FuncResult
	var all []*Obligation
	for _, fc := range w.Contracts.Order {
		if !fc.HasProp(*prop) {
			continue
		}
		r := VerifyFunction(w, fc)
		results = append(results, r)
		all = append(all, r.Obls...)
	}
	worldOf := map[*FuncResult]*World{}
	for _, group := range cfg.ExtraPkgGroups {
		w2, err := LoadWorld(*repo, *verif, group)
		if err != nil {
			p := filepath.Join(replayDir, "load-error.json")
			writeJSON(p, map[string]interface{}{"obligation": "load", "error": err.Error()})
			fmt.Printf("VIOLATION property=%s replay=%s no-failing-input-found\n", *prop, p)
			writeEvidence(*evidenceDir, *prop, *tier, seed, nil, nil, nil, cfg, time.Since(start).Seconds(), 1, nil)
			os.Exit(1)
		}
		for _, fc := range w2.Contracts.Order {
			if !fc.HasProp(*prop) || !pkgInGroup(fc.PkgPath, group) {
				continue
			}
			r := VerifyFunction(w2, fc)
			worldOf[r] = w2
			results = append(results, r)
			all = append(all, r.Obls...)
		}
	}
	solveAll(all, timeout)
	if *tier == "thorough" {
		crossCheck(all, timeout)
	}

	knownByObl := map[string]KnownFinding{}
	for _, k := range known {
		if k.Property == *prop && k.Status == "finding" {
			knownByObl[k.Obligation] = k
		}
	}
	seenKnown := map[string]bool{}
	nObl, nOK := 0, 0
	for _, r := range results {
		if r.Aborted != "" {
			name := r.Name + "/REACH"
			if k, ok := knownByObl[name]; ok {
				fmt.Printf("KNOWN-FINDING: property=%s %s\n", *prop, k.What)
				seenKnown[name] = true
				continue
			}
			p := filepath.Join(replayDir, sanitize(name)+".json")
			writeJSON(p, map[string]interface{}{"obligation": name, "reason": "function under contract cannot be brought under the verifier: " + r.Aborted,
				"solver_output": "no query generated"})
			fmt.Printf("VIOLATION property=%s replay=%s no-failing-input-found\n", *prop, p)
			viols = append(viols, violation{Obligation: name, Replay: p})
			continue
		}
		for _, ob := range r.Obls {
			nObl++
			if ob.OK() {
				nOK++
				continue
			}
			if k, ok := knownByObl[ob.Name]; ok {
				fmt.Printf("KNOWN-FINDING: property=%s %s\n", *prop, k.What)
				seenKnown[ob.Name] = true
				continue
			}
			rw := w
			if w2, ok := worldOf[r]; ok {
				rw = w2
			}
			v := reportFailure(rw, *prop, replayDir, ob)
			viols = append(viols, v)
		}
	}
	// bounded stand-ins
	var standinReports []map[string]interface{}
	if !*noStandins {
		for _, si := range cfg.Standins {
			if si.Tiers == "thorough" && *tier != "thorough" {
				continue
			}
			rep, failures := runStandin(*repo, *verif, *prop, *tier, seed, si)
			standinReports = append(standinReports, rep)
			for _, fl := range failures {
				name := "standin:" + si.File + ":" + fl.Name
				if k, ok := knownByObl[name]; ok {
					if !seenKnown[name] {
						fmt.Printf("KNOWN-FINDING: property=%s %s\n", *prop, k.What)
						seenKnown[name] = true
					}
					continue
				}
				p := filepath.Join(replayDir, sanitize(name)+".json")
				writeJSON(p, map[string]interface{}{"obligation": name, "kind": "bounded stand-in failure on the real code", "output": fl.Output,
					"replay_cmd": rep["cmd"]})
				fmt.Printf("VIOLATION property=%s replay=%s\n", *prop, p)
				viols = append(viols, violation{Obligation: name, Replay: p, Reproduced: true})
			}
		}
	}
	if cfg.MinObligations > 0 && nObl < cfg.MinObligations {
		p := filepath.Join(replayDir, "vacuity.json")
		writeJSON(p, map[string]interface{}{"obligation": "obligation-count", "reason": fmt.Sprintf("only %d obligations generated, at least %d expected: contracts no longer attach to the code", nObl, cfg.MinObligations)})
		fmt.Printf("VIOLATION property=%s replay=%s no-failing-input-found\n", *prop, p)
		viols = append(viols, violation{Obligation: "obligation-count", Replay: p})
	}
	wall := time.Since(start).Seconds()
	writeEvidence(*evidenceDir, *prop, *tier, seed, results, all, standinReports, cfg, wall, len(viols), w)
	fmt.Printf("property %s tier %s: %d functions under contract, %d/%d obligations discharged, %d stand-ins, %d violations, %.1fs\n",
		*prop, *tier, len(results), nOK, nObl, len(standinReports), len(viols), wall)
	if len(viols) > 0 {
		os.Exit(1)
	}
}

func fatal(format string, a ...interface{}) {
	fmt.Fprintf(os.Stderr, "govc: "+format+"\n", a...)
	os.Exit(2)
}

func writeJSON(path string, v interface{}) {
	data, _ := json.MarshalIndent(v, "", " ")
	os.MkdirAll(filepath.Dir(path), 0o755)
	os.WriteFile(path, append(data, '\n'), 0o644)
}

// crossCheck re-runs every discharged obligation on each solver separately (thorough tier):
// a disagreement between solvers is a failure of the check itself.
func crossCheck(obls []*Obligation, timeoutS int) {
	// the portfolio already returns the first definite answer; here we only require that no
	// solver gives the opposite definite answer.
	type job struct{ ob *Obligation }
	done := make(chan struct{}, len(obls))
	for _, ob := range obls {
		if ob.script == nil {
			done <- struct{}{}
			continue
		}
		go func(ob *Obligation) {
			defer func() { done <- struct{}{} }()
			// a cross-check, not a proof attempt: 20 CPU-seconds per solver are enough for the solvers that can
			// decide the query at all, and keep the thorough tier within tens of minutes per property
			budget := timeoutS
			if budget > 20 {
				budget = 20
			}
			rs := SolveEach(ob.Query(), budget)
			for _, r := range rs {
				if (r.Status == "sat" || r.Status == "unsat") && (ob.Result.Status == "sat" || ob.Result.Status == "unsat") && r.Status != ob.Result.Status {
					ob.Result = SolverResult{Status: "error", Solver: "portfolio", Raw: "solver disagreement: " + ob.Result.Solver + "=" + ob.Result.Status + " vs " + r.Solver + "=" + r.Status}
				}
			}
		}(ob)
	}
	for range obls {
		<-done
	}
}

func reportFailure(w *World, prop, replayDir string, ob *Obligation) violation {
	p := filepath.Join(replayDir, sanitize(ob.Name)+".json")
	rec := map[string]interface{}{
		"obligation":    ob.Name,
		"class":         ob.Class,
		"function":      ob.Func,
		"clause":        ob.Text,
		"solver":        ob.Result.Solver,
		"solver_status": ob.Result.Status,
	}
	v := violation{Obligation: ob.Name, Replay: p}
	if ob.Result.Status == "sat" && ob.Expect != "sat" {
		model := summarizeModel(ob)
		rec["model"] = model
		rr := replayModel(w, ob, model)
		rec["replay"] = rr
		if rr != nil && rr.Reproduced {
			v.Reproduced = true
		}
	} else {
		out := ob.Result.Raw
		if len(out) > 4000 {
			out = out[:4000]
		}
		rec["solver_output"] = out
		if ob.Expect == "sat" {
			rec["reason"] = "vacuity guard: the function's assumptions are contradictory (" + ob.Result.Status + ")"
		}
	}
	qf := filepath.Join(replayDir, sanitize(ob.Name)+".smt2")
	if ob.script != nil {
		os.WriteFile(qf, []byte(ob.Query()+"(check-sat)\n(get-model)\n"), 0o644)
		rec["query_file"] = qf
	}
	writeJSON(p, rec)
	if v.Reproduced {
		fmt.Printf("VIOLATION property=%s replay=%s\n", prop, p)
	} else {
		fmt.Printf("VIOLATION property=%s replay=%s no-failing-input-found\n", prop, p)
	}
	return v
}

// pkgInGroup: does the package path belong to one of the patterns ("./liteapi") of the group?
func pkgInGroup(pkgPath string, group []string) bool {
	for _, g := range group {
		g = strings.TrimPrefix(g, "./")
		if pkgPath == g || strings.HasSuffix(pkgPath, "/"+g) {
			return true
		}
	}
	return false
}

func writeEvidence(dir, prop, tier string, seed int64, results []*FuncResult, all []*Obligation, standins []map[string]interface{}, cfg PropConfig, wall float64, nviol int, w *World) {
	nObl, nOK := 0, 0
	bySolver := map[string]int{}
	solverSecs := map[string]float64{}
	byClass := map[string]int{}
	var samples []interface{}
	var funcs, trusted, outOfReach []string
	notes := map[string]bool{}
	var slowest float64
	for _, r := range results {
		if r.Trusted {
			trusted = append(trusted, r.Name)
			continue
		}
		if r.Aborted != "" {
			outOfReach = append(outOfReach, r.Name+": "+r.Aborted)
			continue
		}
		funcs = append(funcs, r.Name)
		for _, n := range r.Notes {
			notes[n] = true
		}
		for i, ob := range r.Obls {
			nObl++
			byClass[ob.Class]++
			if ob.OK() {
				nOK++
				bySolver[ob.Result.Solver]++
			}
			solverSecs[ob.Result.Solver] += ob.Result.Secs
			if ob.Result.Secs > slowest {
				slowest = ob.Result.Secs
			}
			if i < 2 || (ob.Class == "POST" && len(samples) < 40) {
				if len(samples) < 60 {
					samples = append(samples, map[string]interface{}{"obligation": ob.Name, "class": ob.Class, "clause": ob.Text, "status": ob.Result.Status, "solver": ob.Result.Solver, "secs": round3(ob.Result.Secs)})
				}
			}
		}
	}
	sort.Strings(funcs)
	assumptions := append([]string{}, cfg.Assumptions...)
	var ns []string
	for n := range notes {
		ns = append(ns, n)
	}
	sort.Strings(ns)
	assumptions = append(assumptions, ns...)
	for _, t := range trusted {
		assumptions = append(assumptions, "trusted contract (assumed, not verified): "+t)
	}
	if len(samples) == 0 {
		samples = append(samples, "no obligations generated")
	}
	tb := append([]string{
		"go/packages + go/ssa (x/tools v0.29.0) construction of the SSA from /repo's working tree",
		"govc VC generator (/verif/vc): bit-vector semantics of Go integers, Burstall-Bornat heap, DAG symbolic execution with loops cut at invariants",
		"SMT solvers z3 4.8.12, z3 5.1.0, cvc5 1.0 (first definite answer; thorough tier cross-checks all three)",
		"Go compiler and runtime agree with the SSA semantics modelled",
	}, cfg.TrustedBase...)
	cov := map[string]interface{}{
		"obligations":              nObl,
		"discharged":               nOK,
		"checker_cmd":              fmt.Sprintf("/verif/check %s --tier %s", prop, tier),
		"trusted_base":             tb,
		"samples":                  samples,
		"functions_under_contract": funcs,
		"functions_count":          len(funcs),
		"obligations_by_class":     byClass,
		"discharged_by_backend":    bySolver,
		"solver_seconds":           roundMap(solverSecs),
		"slowest_query_s":          round3(slowest),
		"out_of_reach":             outOfReach,
		"bounded":                  standins,
		"explanation":              "obligations are generated from the SSA of the real functions on every run; bounded stand-ins (listed under `bounded`) are not counted in obligations/discharged",
	}
	if w != nil {
		cov["load_seconds"] = round3(w.LoadSecs)
	}
	ev := map[string]interface{}{
		"property_id": prop,
		"tier":        tier,
		"seed":        seed,
		"level":       "proof",
		"coverage":    cov,
		"assumptions": assumptions,
		"wall_s":      round3(wall),
		"violations":  nviol,
	}
	writeJSON(filepath.Join(dir, prop+".json"), ev)
}

func round3(f float64) float64 { return float64(int64(f*1000+0.5)) / 1000 }

func roundMap(m map[string]float64) map[string]float64 {
	out := map[string]float64{}
	for k, v := range m {
		out[k] = round3(v)
	}
	return out
}

var _ = strings.TrimSpace
