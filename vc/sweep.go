package main

// sweep: a zero-annotation safety pass over functions that have no contract. Every function gets the default
// contract (pointer parameters non-nil, declared type invariants, arbitrary everything else, whole memory modifiable)
// and only its SAFE obligations are looked at. A failed obligation means nothing by itself (missing preconditions,
// loops without invariants); only counterexamples that REPLAY on the real code (a panic with concrete inputs) are
// reported. Development tool: it is how candidates for genuine defects are found, not a check.

import (
	"flag"
	"fmt"
	"go/types"
	"os"
	"sort"
	"strings"

	"golang.org/x/tools/go/ssa"
)

func cmdSweep(args []string) {
	fs := flag.NewFlagSet("sweep", flag.ExitOnError)
	repo := fs.String("repo", "/repo", "repository root")
	verif := fs.String("verif", "/verif", "verification root")
	pkgs := fs.String("pkgs", "./boc", "comma-separated package patterns")
	only := fs.String("func", "", "only functions whose name contains this substring")
	timeout := fs.Int("timeout", 10, "per-query timeout (s)")
	out := fs.String("out", "/tmp/govc-sweep", "directory for replay files")
	exported := fs.Bool("exported", false, "only exported functions and methods")
	fs.Parse(args)
	w, err := LoadWorld(*repo, *verif, strings.Split(*pkgs, ","))
	if err != nil {
		fatal("%v", err)
	}
	os.MkdirAll(*out, 0o755)
	var fns []*ssa.Function
	seen := map[*ssa.Function]bool{}
	add := func(fn *ssa.Function) {
		if fn == nil || seen[fn] || fn.Blocks == nil || fn.Synthetic != "" || fn.Pkg == nil {
			return
		}
		if fn.TypeParams().Len() > 0 || len(fn.TypeArgs()) > 0 || fn.Origin() != nil {
			return
		}
		if strings.HasPrefix(fn.Name(), "Test") || strings.HasPrefix(fn.Name(), "lemma") || strings.HasPrefix(fn.Name(), "Lemma") || fn.Name() == "init" {
			return
		}
		if *exported && !fn.Object().Exported() {
			return
		}
		if pos := w.Prog.Fset.Position(fn.Pos()); strings.HasSuffix(pos.Filename, "_test.go") || strings.Contains(pos.Filename, "zz_") {
			return
		}
		if *only != "" && !strings.Contains(fn.String(), *only) {
			return
		}
		if w.ContractFor(fn) != nil {
			return
		}
		seen[fn] = true
		fns = append(fns, fn)
	}
	for _, p := range w.Pkgs {
		sp := w.ssaPkgs[p.PkgPath]
		if sp == nil {
			continue
		}
		for _, m := range sp.Members {
			switch m := m.(type) {
			case *ssa.Function:
				add(m)
			case *ssa.Type:
				for _, t := range []types.Type{m.Type(), types.NewPointer(m.Type())} {
					ms := w.Prog.MethodSets.MethodSet(t)
					for i := 0; i < ms.Len(); i++ {
						if fo, ok := ms.At(i).Obj().(*types.Func); ok && fo.Pkg() == sp.Pkg {
							add(w.Prog.FuncValue(fo))
						}
					}
				}
			}
		}
	}
	sort.Slice(fns, func(i, j int) bool { return fns[i].String() < fns[j].String() })
	fmt.Printf("sweep: %d functions without contract\n", len(fns))
	nRepro := 0
	for _, fn := range fns {
		fc := &FuncContract{PkgPath: fn.Pkg.Pkg.Path(), Name: fn.Name(), ModAll: true, Loops: map[int]*LoopContract{}, SigText: fn.String(), Where: "sweep"}
		if r := fn.Signature.Recv(); r != nil {
			t := r.Type()
			if p, ok := t.(*types.Pointer); ok {
				t = p.Elem()
			}
			if n, ok := t.(*types.Named); ok {
				fc.Recv = n.Obj().Name()
			}
		}
		okNames := true
		for i, p := range fn.Params {
			name := p.Name()
			if name == "" || name == "_" {
				name = fmt.Sprintf("p%d", i)
			}
			fc.ParamNames = append(fc.ParamNames, name)
			switch p.Type().Underlying().(type) {
			case *types.Pointer:
				e, err := ParseSpecExpr(name + " != nil")
				if err != nil {
					okNames = false
					break
				}
				fc.Requires = append(fc.Requires, Clause{Label: "nonnil", Text: name + " != nil", Expr: e, Where: "sweep"})
			}
		}
		if !okNames {
			continue
		}
		r := VerifyFunction(w, fc)
		if r.Aborted != "" {
			fmt.Printf("  %-70s out of reach: %s\n", r.Name, trunc(r.Aborted, 80))
			continue
		}
		var safe []*Obligation
		for _, ob := range r.Obls {
			if ob.Class == "SAFE" {
				safe = append(safe, ob)
			}
		}
		solveAll(safe, *timeout)
		nSat := 0
		for _, ob := range safe {
			if ob.Result.Status != "sat" {
				continue
			}
			nSat++
			v := reportFailure(w, "SWEEP", *out, ob)
			if v.Reproduced {
				nRepro++
				fmt.Printf("REPRODUCED %s  replay=%s\n", ob.Name, v.Replay)
			}
		}
		fmt.Printf("  %-70s SAFE %d, sat %d\n", r.Name, len(safe), nSat)
	}
	fmt.Printf("sweep done: %d reproduced panics\n", nRepro)
}

func trunc(s string, n int) string {
	if len(s) > n {
		return s[:n]
	}
	return s
}
