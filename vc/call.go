package main

import (
	"fmt"
	"go/ast"
	"go/token"
	"go/types"
	"math/big"
	"strings"

	"golang.org/x/tools/go/ssa"
)

func lambdaArr(elSort Sort, body func(j Term) Term, x *Exec) Term {
	jn := x.S.freshName("j")
	j := Term{jn, SBV(64)}
	b := body(j)
	return Term{fmt.Sprintf("(lambda ((%s (_ BitVec 64))) %s)", jn, b.S), SArr(SBV(64), elSort)}
}

func inRange(j, lo, n Term) Term {
	// lo <= j < lo+n  (no wrap: all quantities are below 2^41)
	return And(BVCmp("bvule", lo, j), BVCmp("bvult", j, BVBin("bvadd", lo, n)))
}

func elemKeys(elem types.Type) (keys []string, sorts []Sort) {
	for _, lf := range leaves(elem) {
		keys = append(keys, "M."+heapTypeName(elem)+"[]"+lf.Path)
		sorts = append(sorts, lf.Sort)
	}
	return
}

func (f *frame) call(t *ssa.Call) {
	x := f.x
	c := t.Call
	if b, ok := c.Value.(*ssa.Builtin); ok {
		f.builtin(t, b)
		return
	}
	var args []Val
	for _, a := range c.Args {
		args = append(args, f.val(a))
	}
	if c.IsInvoke() {
		recv := f.val(c.Value)
		f.invoke(t, recv, args)
		return
	}
	callee := c.StaticCallee()
	if callee == nil {
		f.havocCall(t, "call through a function value", args, true)
		return
	}
	if _, isClosure := c.Value.(*ssa.MakeClosure); isClosure {
		f.havocCall(t, "call of a closure", args, true)
		return
	}
	name := callee.String()
	if callee.Origin() != nil {
		name = callee.Origin().String()
	}
	if m, ok := models[name]; ok {
		m(f, t, args)
		return
	}
	fc := x.W.ContractFor(callee)
	if fc != nil && fc.Opaque {
		if fc.HasModifies && !fc.ModAll {
			// opaque with a declared frame: only the listed locations are havoc'd (the frame is an assumption)
			x.opaqueInterior = true
			for i := range args {
				args[i] = f.materialize(args[i], callee.Params[i].Type())
			}
			x.opaqueInterior = false
			pre := x.calleeCtx(callee, fc, args, f.cur.heap, f.cur.heap)
			targets, err := pre.evalModTargets(fc.Modifies)
			if err != nil {
				abort("modifies of %s: %v", callee.Name(), err)
			}
			x.note("ASSUMED (not proved) frame of opaque %s: modifies only %s", funcDisplayName(callee), fc.SigText)
			after := f.cur.heap
			x.havocked = nil
			for _, mt := range targets {
				after = x.havocTarget(after, mt)
			}
			// interface arguments that wrap a pointer (decode targets such as `&msg` passed as `any`): the pointee
			// object is written by the callee
			for _, a := range t.Call.Args {
				if mi, ok := a.(*ssa.MakeInterface); ok {
					if pt, ok := mi.X.Type().Underlying().(*types.Pointer); ok {
						pv := f.val(mi.X)
						if pv.Loc != nil {
							fv := x.freshVal("hv_target", pv.Loc.T)
							after = x.H.StoreLoc(after, pv.Loc, fv.T)
						} else if len(pv.T) == 1 {
							fv := x.freshVal("hv_target", pt.Elem())
							after = x.H.StoreLoc(after, objectLoc(pv.T[0], pt.Elem()), fv.T)
						}
					}
				}
			}
			nx := x.S.Declare("next", SInt)
			x.S.Assert(IntLt(nx, IntConst(1<<39)))
			x.S.Assert(IntLe(f.cur.heap.next, nx))
			f.cur.heap = x.H.WithNext(after, nx)
			for _, hv := range x.havocked {
				for _, fact := range x.wfFacts(hv.Typ, hv.T, nx) {
					f.assume(fact)
				}
			}
			x.havocked = nil
			f.reassumeTypeInvs(args)
			res := f.setFreshResult(t)
			if len(fc.Assumes) > 0 {
				post := x.calleeCtx(callee, fc, args, f.cur.heap, pre.Heap)
				var rvals []Val
				if tp, ok := t.Type().(*types.Tuple); ok {
					for i := 0; i < tp.Len(); i++ {
						lo, hi := tupleRange(tp, i)
						rvals = append(rvals, Val{T: res.T[lo:hi], Typ: tp.At(i).Type()})
					}
				} else {
					rvals = []Val{res}
				}
				bindResults(post, fc, callee.Signature, rvals)
				for _, e := range fc.Assumes {
					g, err := post.EvalBool(e.Expr)
					if err != nil {
						abort("assume of %s (%s): %v", callee.Name(), e.Text, err)
					}
					x.note("ASSUMED (not proved) about %s: %s", funcDisplayName(callee), e.Text)
					f.assume(g)
				}
			}
			return
		}
		f.havocCall(t, "callee declared opaque: "+funcDisplayName(callee), args, true)
		return
	}
	if fc != nil && !fc.Inline && !(x.fc != nil && x.fc.InlineCallees[callee.Name()]) {
		f.callByContract(t, callee, fc, args)
		return
	}
	inModule := fnPkg(callee) != nil && strings.HasPrefix(fnPkg(callee).Pkg.Path(), modulePath)
	if inModule && callee.Blocks != nil && f.depth < x.inlineMax && !f.onStack(callee) && (fc != nil || instrCount(callee) <= 220) && inlinable(callee) {
		f.inlineCall(t, callee, fc, args)
		return
	}
	why := "unspecified callee " + funcDisplayName(callee)
	if !inModule && isPureExternal(callee) {
		x.note("%s: result unconstrained, assumed to terminate without panic and without writing memory visible to the caller", why)
		before := f.cur.heap.next
		nx := x.S.Declare("next", SInt)
		x.S.Assert(IntLt(nx, IntConst(1<<39)))
		x.S.Assert(IntLe(before, nx))
		f.cur.heap = x.H.WithNext(f.cur.heap, nx)
		res := f.setFreshResult(t)
		// slices returned by these library functions are freshly allocated (or nil)
		f.assumeFreshSlices(t.Type(), res.T, before)
		if callee.Name() == "BitLen" && fnPkg(callee) != nil && fnPkg(callee).Pkg.Path() == "math/big" && len(res.T) == 1 {
			// law of math/big: the bit length of an integer is never negative
			f.assume(BVCmp("bvsge", res.T[0], BVConst(big.NewInt(0), 64)))
			x.note("(*math/big.Int).BitLen: the result is >= 0 (law of math/big)")
		}
		if fnPkg(callee) != nil && fnPkg(callee).Pkg.Path() == "math/big" && len(res.T) == 1 {
			if pt, ok := t.Type().(*types.Pointer); ok && pt.Elem().String() == "math/big.Int" {
				// law of math/big: NewInt and the arithmetic methods return a non-nil *big.Int (the receiver or a new one)
				f.assume(Not(Eq(res.T[0], IntConst(0))))
				x.note("math/big: a *big.Int returned by NewInt / an arithmetic method is non-nil (law of math/big)")
			}
		}
		if callee.Name() == "EncodeToString" && len(args) > 0 && len(res.T) == 1 {
			// every textual encoding is at least as long as its input
			src := args[len(args)-1]
			if _, ok := src.Typ.Underlying().(*types.Slice); ok {
				f.assume(BVCmp("bvuge", x.strLen(res.T[0]), src.T[2]))
				x.note("EncodeToString: the encoded text is at least as long as the input (law of hex/base32/base64)")
			}
		}
		return
	}
	f.havocCall(t, why, args, inModule)
}

func instrCount(fn *ssa.Function) int {
	n := 0
	for _, b := range fn.Blocks {
		for _, in := range b.Instrs {
			if _, ok := in.(*ssa.DebugRef); !ok {
				n++
			}
		}
	}
	return n
}

func (f *frame) onStack(fn *ssa.Function) bool {
	if f.fn == fn {
		return true
	}
	for _, s := range f.callStack {
		if s == fn {
			return true
		}
	}
	return false
}

func hasRefArgs(args []Val) bool {
	for _, a := range args {
		if a.Typ == nil {
			continue
		}
		if typeHasRefs(a.Typ) {
			return true
		}
	}
	return false
}

func typeHasRefs(t types.Type) bool {
	switch u := t.Underlying().(type) {
	case *types.Pointer, *types.Slice, *types.Map, *types.Chan, *types.Signature, *types.Interface:
		return true
	case *types.Struct:
		for i := 0; i < u.NumFields(); i++ {
			if typeHasRefs(u.Field(i).Type()) {
				return true
			}
		}
	case *types.Array:
		return typeHasRefs(u.Elem())
	}
	return false
}

func (f *frame) havocCall(t *ssa.Call, why string, args []Val, moduleFn bool) {
	x := f.x
	x.note("%s: result unconstrained, assumed to terminate without panic", why)
	if moduleFn || hasRefArgs(args) {
		f.cur.heap = x.H.HavocAll(f.cur.heap)
		x.note("%s: all memory havoc'd at the call", why)
		// declared data-structure invariants are taken to be preserved by every function: re-assume them for the
		// pointer arguments and for the verified function's own pointer parameters in the new state
		f.reassumeTypeInvs(args)
	}
	f.setFreshResult(t)
}

// reassumeTypeInvs: declared data-structure invariants are taken to be preserved by every unspecified function.
func (f *frame) reassumeTypeInvs(args []Val) {
	x := f.x
	if len(x.W.Contracts.TypeInvs) == 0 {
		return
	}
	reassume := func(v Val) {
		if v.Typ == nil || len(v.T) == 0 {
			return
		}
		for _, fact := range x.typeInvFacts(v.Typ, v.T, f.cur.heap) {
			f.assume(fact)
		}
	}
	for _, a := range args {
		reassume(a)
	}
	for _, p := range x.topParams {
		reassume(p)
	}
}

func (f *frame) setFreshResult(t *ssa.Call) Val {
	x := f.x
	rt := t.Type()
	if tp, ok := rt.(*types.Tuple); ok && tp.Len() == 0 {
		f.vals[t] = Val{Typ: rt}
		return f.vals[t]
	}
	v := x.freshVal("r_"+t.Name(), rt)
	x.strictSlices = true
	facts := x.wfFacts(rt, v.T, f.cur.heap.next)
	x.strictSlices = false
	for _, fact := range facts {
		f.assume(fact)
	}
	f.vals[t] = v
	return v
}

// ---------------------------------------------------------------------------

func (f *frame) inlineCall(t *ssa.Call, callee *ssa.Function, fc *FuncContract, args []Val) {
	x := f.x
	for i := range args {
		if args[i].Loc == nil {
			args[i] = f.materialize(args[i], callee.Params[i].Type())
		} else if len(args[i].T) == 0 && args[i].Loc.Root && len(args[i].Loc.Chain) == 0 {
			args[i].T = []Term{args[i].Loc.Ref}
		}
	}
	sub := &frame{
		x: x, fn: callee, fc: fc, vals: map[ssa.Value]Val{}, depth: f.depth + 1,
		path:      fmt.Sprintf("%s>%s@%s", f.path, callee.Name(), t.Name()),
		dispName:  f.dispName + "/via:" + callee.Name(),
		baseLoops: append([]string{}, x.curLoops...),
		params:    args,
		callStack: append(append([]*ssa.Function{}, f.callStack...), f.fn),
		entryHeap: f.cur.heap,
	}
	saveLoops := x.curLoops
	saveBlock := f.curBlock
	sub.run(&BState{pc: f.cur.pc, heap: f.cur.heap})
	x.curLoops = saveLoops
	f.curBlock = saveBlock
	if len(sub.rets) == 0 {
		// callee never returns (always panics): path ends
		f.cur = nil
		f.vals[t] = Val{Typ: t.Type()}
		return
	}
	var conds []Term
	var heaps []*HeapState
	for _, r := range sub.rets {
		conds = append(conds, r.pc)
		heaps = append(heaps, r.heap)
	}
	var parents []string
	for _, c := range conds {
		parents = append(parents, c.S)
	}
	pc := x.S.DefinePC(Or(conds...), parents)
	heap := x.H.Merge(conds, heaps)
	// merge results
	nres := len(sub.rets[0].vals)
	var merged []Term
	for ri := 0; ri < nres; ri++ {
		last := sub.rets[len(sub.rets)-1].vals[ri]
		cur := append([]Term{}, last.T...)
		for k := len(sub.rets) - 2; k >= 0; k-- {
			v := sub.rets[k].vals[ri]
			for j := range cur {
				cur[j] = Ite(conds[k], v.T[j], cur[j])
			}
		}
		merged = append(merged, cur...)
	}
	f.cur = &BState{pc: pc, heap: heap}
	res := Val{T: merged, Typ: t.Type()}
	if nres == 1 && len(sub.rets) == 1 {
		res.Loc = sub.rets[0].vals[0].Loc
	}
	for k := range res.T {
		res.T[k] = x.S.Define(t.Name(), res.T[k])
	}
	f.vals[t] = res
}

// ---------------------------------------------------------------------------

// calleeCtx builds the evaluation context of a callee's contract at a call site.
func (x *Exec) calleeCtx(callee *ssa.Function, fc *FuncContract, args []Val, heap, old *HeapState) *EvalCtx {
	ctx := &EvalCtx{X: x, PkgPath: fnPkg(callee).Pkg.Path(), Scope: fnPkg(callee).Pkg.Scope(), Vars: map[string]Val{}, Heap: heap, Old: old}
	names := fc.ParamNames
	if len(names) != len(callee.Params) {
		names = nil
		for _, p := range callee.Params {
			names = append(names, p.Name())
		}
	}
	for i, n := range names {
		if n != "" && n != "_" && i < len(args) {
			ctx.Vars[n] = args[i]
		}
	}
	return ctx
}

func bindResults(ctx *EvalCtx, fc *FuncContract, sig *types.Signature, res []Val) {
	if len(res) == 1 {
		ctx.Vars["result"] = res[0]
	}
	for i, r := range res {
		ctx.Vars[fmt.Sprintf("result%d", i)] = r
		if fc != nil && i < len(fc.ResultNames) && fc.ResultNames[i] != "" && fc.ResultNames[i] != "_" {
			ctx.Vars[fc.ResultNames[i]] = r
		} else if sig.Results().At(i).Name() != "" && sig.Results().At(i).Name() != "_" {
			if _, taken := ctx.Vars[sig.Results().At(i).Name()]; !taken {
				ctx.Vars[sig.Results().At(i).Name()] = r
			}
		}
	}
}

// modTarget is one location named in a modifies clause.
type modTarget struct {
	loc      *Loc
	wholeArr bool
	arrRef   Term
	elem     types.Type
}

func (ctx *EvalCtx) evalModTargets(mods []ast.Expr) (out []modTarget, err error) {
	defer func() {
		if r := recover(); r != nil {
			if ee, ok := r.(evalError); ok {
				err = fmt.Errorf("%s", ee.msg)
				return
			}
			panic(r)
		}
	}()
	for _, m := range mods {
		switch n := m.(type) {
		case *ast.IndexExpr: // x[*]  (written x[0]): every element of the slice's backing array / array
			base := ctx.eval(n.X)
			switch u := base.Typ.Underlying().(type) {
			case *types.Slice:
				out = append(out, modTarget{wholeArr: true, arrRef: base.T[0], elem: u.Elem()})
			case *types.Pointer:
				// pointer to an array: the array object
				out = append(out, modTarget{loc: ctx.X.locOf(base, u.Elem())})
			default:
				// array field inside an object: treat the whole field as modified
				l, e2 := ctx.evalLoc(n.X)
				if e2 != nil {
					return nil, e2
				}
				out = append(out, modTarget{loc: l})
			}
		default:
			l, e2 := ctx.evalLoc(m)
			if e2 != nil {
				return nil, e2
			}
			out = append(out, modTarget{loc: l})
		}
	}
	return out, nil
}

func (ctx *EvalCtx) evalLoc(e ast.Expr) (*Loc, error) {
	switch n := e.(type) {
	case *ast.ParenExpr:
		return ctx.evalLoc(n.X)
	case *ast.SelectorExpr:
		base := ctx.eval(n.X)
		if pt, ok := base.Typ.Underlying().(*types.Pointer); ok {
			st, ok := pt.Elem().Underlying().(*types.Struct)
			if !ok {
				return nil, fmt.Errorf("modifies: selector on non-struct pointer")
			}
			idx := fieldIndex(st, n.Sel.Name)
			if idx < 0 {
				return nil, fmt.Errorf("modifies: no field %s", n.Sel.Name)
			}
			return ctx.X.locOf(base, pt.Elem()).Field(idx), nil
		}
		inner, err := ctx.evalLoc(n.X)
		if err != nil {
			return nil, err
		}
		st, ok := inner.T.Underlying().(*types.Struct)
		if !ok {
			return nil, fmt.Errorf("modifies: selector on non-struct location")
		}
		idx := fieldIndex(st, n.Sel.Name)
		if idx < 0 {
			return nil, fmt.Errorf("modifies: no field %s", n.Sel.Name)
		}
		return inner.Field(idx), nil
	case *ast.StarExpr:
		base := ctx.eval(n.X)
		pt, ok := base.Typ.Underlying().(*types.Pointer)
		if !ok {
			return nil, fmt.Errorf("modifies: * on non-pointer")
		}
		return ctx.X.locOf(base, pt.Elem()), nil
	case *ast.Ident:
		// a local variable that lives in memory (its address is taken in the code)
		v := ctx.eval(n)
		if v.Loc != nil && isAggregate(v.Typ) {
			return v.Loc, nil
		}
		return nil, fmt.Errorf("location of %s: not an addressable aggregate variable", n.Name)
	}
	return nil, fmt.Errorf("modifies: unsupported location expression")
}

func (f *frame) callByContract(t *ssa.Call, callee *ssa.Function, fc *FuncContract, args []Val) {
	x := f.x
	// pointers into the middle of an object keep their static location (the contract dereferences through it)
	x.opaqueInterior = true
	for i := range args {
		args[i] = f.materialize(args[i], callee.Params[i].Type())
	}
	x.opaqueInterior = false
	before := f.cur.heap
	pre := x.calleeCtx(callee, fc, args, before, before)
	cname := callee.Name()
	for _, r := range fc.Requires {
		g, err := pre.EvalBool(r.Expr)
		if err != nil {
			abort("requires of %s (%s): %v", cname, r.Text, err)
		}
		label := fmt.Sprintf("%s:%s", cname, clauseLabel(r))
		x.addObligation("PRE", f.dispName, label, "precondition of "+cname+": "+r.Text, f.cur.pc, g, nil)
		f.assume(g)
	}
	if fc.Trusted {
		x.note("contract of %s is trusted (assumed, body not verified here)", funcDisplayName(callee))
	}
	// frame
	after := before
	if fc.ModAll {
		after = x.H.HavocAll(before)
	} else {
		targets, err := pre.evalModTargets(fc.Modifies)
		if err != nil {
			abort("modifies of %s: %v", cname, err)
		}
		x.havocked = nil
		for _, mt := range targets {
			after = x.havocTarget(after, mt)
		}
		nx := x.S.Declare("next", SInt)
		x.S.Assert(IntLt(nx, IntConst(1<<39)))
		x.S.Assert(IntLe(before.next, nx))
		after = x.H.WithNext(after, nx)
		// whatever the callee stored into the modified locations refers to objects that exist AFTER the call
		// (the callee may have allocated them): well-formedness against the new allocation counter
		for _, hv := range x.havocked {
			for _, fact := range x.wfFacts(hv.Typ, hv.T, nx) {
				f.assume(fact)
			}
		}
		x.havocked = nil
	}
	f.cur.heap = after
	res := f.setFreshResult(t)
	post := x.calleeCtx(callee, fc, args, after, before)
	var rvals []Val
	if tp, ok := t.Type().(*types.Tuple); ok {
		for i := 0; i < tp.Len(); i++ {
			lo, hi := tupleRange(tp, i)
			rvals = append(rvals, Val{T: res.T[lo:hi], Typ: tp.At(i).Type()})
		}
	} else {
		rvals = []Val{res}
	}
	bindResults(post, fc, callee.Signature, rvals)
	for _, e := range fc.Ensures {
		g, err := post.EvalBool(e.Expr)
		if err != nil {
			abort("ensures of %s (%s): %v", cname, e.Text, err)
		}
		f.assume(g)
	}
	for _, e := range fc.Assumes {
		g, err := post.EvalBool(e.Expr)
		if err != nil {
			abort("assume of %s (%s): %v", cname, e.Text, err)
		}
		x.note("ASSUMED (not proved) about %s: %s", funcDisplayName(callee), e.Text)
		f.assume(g)
	}
}

func (x *Exec) havocTarget(h *HeapState, mt modTarget) *HeapState {
	if mt.wholeArr {
		keys, sorts := elemKeys(mt.elem)
		for i, k := range keys {
			a := x.H.Get(h, k, wrapSort(sorts[i], 1))
			h = x.H.SetAt(h, k, mt.arrRef, Store(a, mt.arrRef, x.S.Declare("hv_arr", SArr(SBV(64), sorts[i]))))
		}
		return h
	}
	v := x.freshVal("hv", mt.loc.T)
	x.havocked = append(x.havocked, v)
	return x.H.StoreLoc(h, mt.loc, v.T)
}

// ---------------------------------------------------------------------------
// Interface method calls.

func (f *frame) invoke(t *ssa.Call, recv Val, args []Val) {
	x := f.x
	m := t.Call.Method
	iface := t.Call.Value.Type()
	key := ""
	if n, ok := iface.(*types.Named); ok && n.Obj().Pkg() != nil {
		key = n.Obj().Pkg().Path() + "." + n.Obj().Name() + "." + m.Name()
	}
	f.safe("nil", t.Pos(), isCallExpr, Not(Eq(recv.One(), IntConst(0))), "method call on nil interface")
	if mod, ok := invokeModels[key]; ok {
		mod(f, t, recv, args)
		return
	}
	if fc := x.W.Contracts.Funcs[key]; fc != nil {
		// contract attached to an interface method: assumed for every implementation
		x.note("interface method contract %s assumed for every implementation", key)
		f.ifaceContract(t, fc, recv, args)
		return
	}
	if m.Name() == "Error" && len(args) == 0 {
		r := x.S.Declare("errstr", SInt)
		f.assume(IntLe(IntConst(0), r))
		f.vals[t] = Val{T: []Term{r}, Typ: t.Type()}
		return
	}
	f.havocCall(t, "interface method "+key, append([]Val{recv}, args...), true)
}

func (f *frame) ifaceContract(t *ssa.Call, fc *FuncContract, recv Val, args []Val) {
	x := f.x
	before := f.cur.heap
	all := append([]Val{recv}, args...)
	mk := func(heap, old *HeapState) *EvalCtx {
		ctx := &EvalCtx{X: x, PkgPath: fc.PkgPath, Vars: map[string]Val{}, Heap: heap, Old: old}
		if p := x.W.byPath[fc.PkgPath]; p != nil {
			ctx.Scope = p.Types.Scope()
		}
		for i, n := range fc.ParamNames {
			if i < len(all) && n != "_" {
				ctx.Vars[n] = all[i]
			}
		}
		return ctx
	}
	pre := mk(before, before)
	for _, r := range fc.Requires {
		g, err := pre.EvalBool(r.Expr)
		if err != nil {
			abort("requires of %s: %v", fc.Key(), err)
		}
		x.addObligation("PRE", f.dispName, fc.Name+":"+clauseLabel(r), r.Text, f.cur.pc, g, nil)
		f.assume(g)
	}
	if fc.ModAll {
		f.cur.heap = x.H.HavocAll(before)
	} else {
		nx := x.S.Declare("next", SInt)
		x.S.Assert(IntLt(nx, IntConst(1<<39)))
		x.S.Assert(IntLe(before.next, nx))
		f.cur.heap = x.H.WithNext(before, nx)
	}
	res := f.setFreshResult(t)
	post := mk(f.cur.heap, before)
	var rvals []Val
	if tp, ok := t.Type().(*types.Tuple); ok {
		for i := 0; i < tp.Len(); i++ {
			lo, hi := tupleRange(tp, i)
			rvals = append(rvals, Val{T: res.T[lo:hi], Typ: tp.At(i).Type()})
		}
	} else {
		rvals = []Val{res}
	}
	bindResults(post, fc, t.Call.Method.Type().(*types.Signature), rvals)
	for _, e := range fc.Ensures {
		g, err := post.EvalBool(e.Expr)
		if err != nil {
			abort("ensures of %s: %v", fc.Key(), err)
		}
		f.assume(g)
	}
}

// ---------------------------------------------------------------------------
// Builtins.

func (f *frame) builtin(t *ssa.Call, b *ssa.Builtin) {
	x := f.x
	args := t.Call.Args
	intT := types.Typ[types.Int]
	switch b.Name() {
	case "len", "cap":
		v := f.val(args[0])
		switch u := args[0].Type().Underlying().(type) {
		case *types.Slice:
			if b.Name() == "len" {
				f.set(t, scalar(v.T[2], intT))
			} else {
				f.set(t, scalar(v.T[3], intT))
			}
		case *types.Basic:
			f.set(t, scalar(x.strLen(v.One()), intT))
		case *types.Array:
			f.set(t, scalar(BVInt(u.Len(), 64), intT))
		case *types.Pointer:
			at := u.Elem().Underlying().(*types.Array)
			f.set(t, scalar(BVInt(at.Len(), 64), intT))
		case *types.Map, *types.Chan:
			r := x.S.Declare("maplen", SBV(64))
			f.assume(BVCmp("bvule", r, sizeLimit))
			f.set(t, scalar(r, intT))
		default:
			abort("len of %s", args[0].Type())
		}
	case "copy":
		f.copyBuiltin(t)
	case "append":
		f.appendBuiltin(t)
	case "min", "max":
		a := f.val(args[0])
		w, signed, ok := isIntType(args[0].Type())
		if !ok {
			abort("min/max on non-integer")
		}
		_ = w
		cur := a.One()
		for _, o := range args[1:] {
			ov := f.val(o).One()
			op := "bvult"
			if signed {
				op = "bvslt"
			}
			less := BVCmp(op, ov, cur)
			if b.Name() == "max" {
				less = BVCmp(op, cur, ov)
			}
			cur = Ite(less, ov, cur)
		}
		f.set(t, scalar(cur, t.Type()))
	case "delete":
		x.note("map contents are not modelled (updates ignored, lookups unconstrained)")
		f.vals[t] = Val{Typ: t.Type()}
	case "print", "println":
		f.vals[t] = Val{Typ: t.Type()}
	case "ssa:wrapnilchk":
		v := f.val(args[0])
		f.nonNil(v, t.Pos())
		f.vals[t] = v
	default:
		abort("builtin %s", b.Name())
	}
}

func (f *frame) copyBuiltin(t *ssa.Call) {
	x := f.x
	dst := f.val(t.Call.Args[0])
	src := f.val(t.Call.Args[1])
	elem := t.Call.Args[0].Type().Underlying().(*types.Slice).Elem()
	var srcLen Term
	srcIsStr := isString(t.Call.Args[1].Type())
	if srcIsStr {
		srcLen = x.strLen(src.One())
	} else {
		srcLen = src.T[2]
	}
	n := x.S.Define("copyn", Ite(BVCmp("bvult", srcLen, dst.T[2]), srcLen, dst.T[2]))
	keys, sorts := elemKeys(elem)
	h := f.cur.heap
	for i, k := range keys {
		a := x.H.Get(h, k, wrapSort(sorts[i], 1))
		dinner := Select(a, dst.T[0])
		var newInner Term
		if dst.FixedN > 0 && dst.FixedN <= 32 {
			// destination lives in a small fixed-size array: write every position explicitly
			newInner = dinner
			for p := int64(0); p < dst.FixedN; p++ {
				pp := BVInt(p, 64)
				rel := BVBin("bvsub", pp, dst.T[1])
				var sv Term
				if srcIsStr {
					sv = x.strByte(src.One(), rel)
				} else {
					sv = Select(Select(a, src.T[0]), BVBin("bvadd", src.T[1], rel))
				}
				newInner = Store(newInner, pp, Ite(inRange(pp, dst.T[1], n), sv, Select(dinner, pp)))
			}
		} else if c, ok := n.Const(); ok && c.Cmp(big.NewInt(16)) <= 0 {
			newInner = dinner
			for j := int64(0); j < c.Int64(); j++ {
				jj := BVInt(j, 64)
				var sv Term
				if srcIsStr {
					sv = x.strByte(src.One(), jj)
				} else {
					sv = Select(Select(a, src.T[0]), BVBin("bvadd", src.T[1], jj))
				}
				newInner = Store(newInner, BVBin("bvadd", dst.T[1], jj), sv)
			}
		} else {
			newInner = lambdaArr(sorts[i], func(j Term) Term {
				var sv Term
				if srcIsStr {
					sv = x.strByte(src.One(), BVBin("bvsub", j, dst.T[1]))
				} else {
					sv = Select(Select(a, src.T[0]), BVBin("bvadd", src.T[1], BVBin("bvsub", j, dst.T[1])))
				}
				return Ite(inRange(j, dst.T[1], n), sv, Select(dinner, j))
			}, x)
		}
		h = x.H.SetAt(h, k, dst.T[0], Store(a, dst.T[0], newInner))
	}
	f.cur.heap = h
	f.set(t, scalar(n, types.Typ[types.Int]))
}

func (f *frame) appendBuiltin(t *ssa.Call) {
	x := f.x
	s := f.val(t.Call.Args[0])
	add := f.val(t.Call.Args[1])
	elem := t.Type().Underlying().(*types.Slice).Elem()
	srcIsStr := isString(t.Call.Args[1].Type())
	var n Term
	if srcIsStr {
		n = x.strLen(add.One())
	} else {
		n = add.T[2]
	}
	newLen := x.S.Define("applen", BVBin("bvadd", s.T[2], n))
	fits := x.S.Define("fits", BVCmp("bvule", newLen, s.T[3]))
	// when the solver can show at once that the append always fits (or never does), keep one case only
	alwaysFits, neverFits := false, false
	if !x.discovery {
		if f.valid(fits) {
			alwaysFits = true
		} else if f.valid(Not(fits)) {
			neverFits = true
		}
	}
	fresh := f.freshRef()
	h := f.cur.heap
	newCap := x.S.Declare("appcap", SBV(64))
	f.assume(And(BVCmp("bvule", newLen, newCap), BVCmp("bvule", newCap, BVBin("bvadd", BVBin("bvadd", newLen, newLen), BVInt(64, 64)))))
	if x.allocBound != nil {
		pcSave := f.cur.pc
		f.cur.pc = And(pcSave, Not(fits))
		f.allocCheck(t.Pos(), newLen, elem, "append growth")
		f.cur.pc = pcSave
	}
	keys, sorts := elemKeys(elem)
	end := x.S.Define("append_at", BVBin("bvadd", s.T[1], s.T[2]))
	for i, k := range keys {
		a := x.H.Get(h, k, wrapSort(sorts[i], 1))
		inner := Select(a, s.T[0])
		srcAt := func(idx Term) Term {
			if srcIsStr {
				return x.strByte(add.One(), idx)
			}
			return Select(Select(a, add.T[0]), BVBin("bvadd", add.T[1], idx))
		}
		var inPlace, moved Term
		if c, ok := n.Const(); ok && c.Cmp(big.NewInt(8)) <= 0 {
			inPlace = inner
			for j := int64(0); j < c.Int64(); j++ {
				inPlace = Store(inPlace, BVBin("bvadd", end, BVInt(j, 64)), srcAt(BVInt(j, 64)))
			}
		} else {
			inPlace = lambdaArr(sorts[i], func(j Term) Term {
				return Ite(inRange(j, end, n), srcAt(BVBin("bvsub", j, end)), Select(inner, j))
			}, x)
		}
		moved = lambdaArr(sorts[i], func(j Term) Term {
			return Ite(BVCmp("bvult", j, s.T[2]), Select(inner, BVBin("bvadd", s.T[1], j)),
				Ite(BVCmp("bvult", j, newLen), srcAt(BVBin("bvsub", j, s.T[2])), zeroOfSort(sorts[i])))
		}, x)
		switch {
		case alwaysFits:
			h = x.H.SetAt(h, k, s.T[0], Store(a, s.T[0], inPlace))
		case neverFits:
			h = x.H.SetAt(h, k, fresh, Store(a, fresh, moved))
		default:
			h = x.H.SetAt(h, k, Ite(fits, s.T[0], fresh), Ite(fits, Store(a, s.T[0], inPlace), Store(a, fresh, moved)))
		}
	}
	f.cur.heap = h
	switch {
	case alwaysFits:
		f.set(t, Val{T: []Term{s.T[0], s.T[1], newLen, s.T[3]}, Typ: t.Type(), FixedN: s.FixedN})
	case neverFits:
		f.set(t, Val{T: []Term{fresh, BVInt(0, 64), newLen, newCap}, Typ: t.Type()})
	default:
		f.set(t, Val{T: []Term{Ite(fits, s.T[0], fresh), Ite(fits, s.T[1], BVInt(0, 64)), newLen, Ite(fits, s.T[3], newCap)}, Typ: t.Type()})
	}
}

var _ = token.NoPos

// valid asks the solvers (briefly) whether g holds on every path reaching the current point.
func (f *frame) valid(g Term) bool {
	if g.S == "true" {
		return true
	}
	if g.S == "false" {
		return false
	}
	x := f.x
	ob := &Obligation{PC: f.cur.pc, Goal: g, script: x.S, mark: x.S.Mark(), Expect: "unsat"}
	r := Solve(ob.Query(), 3, false)
	return r.Status == "unsat"
}

// isPureExternal lists library functions that do not write memory reachable from their arguments.
func isPureExternal(fn *ssa.Function) bool {
	if fn.Pkg == nil {
		// methods of instantiated or synthetic packages: decide by the full name
		return false
	}
	pkg := fn.Pkg.Pkg.Path()
	name := fn.Name()
	isMethod := fn.Signature.Recv() != nil
	switch pkg {
	case "strings", "strconv", "unicode", "unicode/utf8", "math/bits", "math", "sort", "path", "path/filepath":
		return !isMethod && !strings.HasPrefix(name, "Append")
	case "bytes":
		if isMethod {
			return false
		}
		switch name {
		case "Equal", "Compare", "HasPrefix", "HasSuffix", "Contains", "Index", "IndexByte", "NewReader", "NewBuffer", "TrimSpace", "Trim":
			return true
		}
	case "fmt":
		switch name {
		case "Sprintf", "Sprint", "Sprintln", "Errorf":
			return true
		}
	case "errors":
		return name == "New" || name == "Is" || name == "Unwrap"
	case "encoding/hex":
		return name == "EncodeToString" || name == "DecodeString" || name == "EncodedLen" || name == "DecodedLen"
	case "encoding/base64", "encoding/base32":
		switch name {
		case "EncodeToString", "DecodeString", "EncodedLen", "DecodedLen", "WithPadding", "NewEncoding":
			return true
		}
	case "github.com/snksoft/crc":
		return name == "CalculateCRC"
	case "crypto/sha256", "crypto/sha512", "crypto/md5":
		return strings.HasPrefix(name, "Sum")
	case "crypto/ed25519":
		return name == "Verify" || name == "Sign" || name == "NewKeyFromSeed"
	case "hash/crc32":
		return name == "Checksum" || name == "MakeTable" || name == "ChecksumIEEE"
	case "time":
		return true
	case "math/big":
		// arbitrary-precision integers: these constructors and methods read their operands (incl. byte slices and
		// strings) and write only the receiver / a new big.Int, whose storage is private to math/big and never
		// aliases memory the verified code can name. FillBytes and Append* (which write into an argument) and the
		// Scan/Unmarshal* family are deliberately NOT listed.
		switch name {
		case "NewInt", "SetBytes", "SetUint64", "SetInt64", "SetString", "Set", "SetBit", "Add", "Sub", "Mul", "Exp",
			"Neg", "Abs", "Lsh", "Rsh", "And", "Or", "Xor", "Not", "Cmp", "CmpAbs", "Sign", "BitLen", "Bit", "Bytes",
			"Uint64", "Int64", "IsUint64", "IsInt64", "String", "Text", "Div", "Mod", "Quo", "Rem":
			return true
		}
	}
	return false
}

var inlinableCache = map[*ssa.Function]bool{}

// inlinable: the body uses only instructions the executor models (otherwise the call is havoc'd instead).
func inlinable(fn *ssa.Function) bool {
	if v, ok := inlinableCache[fn]; ok {
		return v
	}
	ok := true
	for _, b := range fn.Blocks {
		for _, in := range b.Instrs {
			switch t := in.(type) {
			case *ssa.Range, *ssa.Next, *ssa.Go, *ssa.Select, *ssa.Send, *ssa.MakeChan, *ssa.SliceToArrayPointer:
				ok = false
			case *ssa.Call:
				// reflective code is opaque to the executor
				if cal := t.Call.StaticCallee(); cal != nil && cal.Pkg != nil && cal.Pkg.Pkg.Path() == "reflect" {
					ok = false
				}
				if strings.Contains(t.Call.Value.Type().String(), "reflect.") {
					ok = false
				}
			case *ssa.Defer:
				if !isSyncNoop(t.Call) {
					ok = false
				}
			case *ssa.UnOp:
				if t.Op == token.ARROW {
					ok = false
				}
			case *ssa.BinOp:
				if isFloat(t.X.Type()) {
					ok = false
				}
			case *ssa.Convert:
				if isFloat(t.Type()) || isFloat(t.X.Type()) {
					ok = false
				}
			}
		}
	}
	inlinableCache[fn] = ok
	return ok
}

// assumeFreshSlices: every slice among the leaves was allocated at or after `since` (or is nil).
func (f *frame) assumeFreshSlices(t types.Type, vals []Term, since Term) {
	switch u := t.Underlying().(type) {
	case *types.Slice:
		f.assume(Or(Eq(vals[0], IntConst(0)), IntLe(since, vals[0])))
	case *types.Tuple:
		lo := 0
		for i := 0; i < u.Len(); i++ {
			n := nLeaves(u.At(i).Type())
			f.assumeFreshSlices(u.At(i).Type(), vals[lo:lo+n], since)
			lo += n
		}
	}
}
