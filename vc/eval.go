package main

// Evaluation of contract expressions (go/ast after the spec pre-pass) to SMT terms.

import (
	"fmt"
	"go/ast"
	"go/constant"
	"go/token"
	"go/types"
	"math/big"
	"strconv"
	"strings"
)

type Val struct {
	T   []Term
	Typ types.Type // nil: untyped integer constant held in C
	C   *big.Int
	Loc *Loc // statically known pointer target (pointer-typed values only)
	Lazy func(typ types.Type) Val // untyped constant shifted by a non-constant count: typed by context
	FixedN int64 // slices carved out of a fixed-size array object: its length (0 = unknown)
}

func scalar(t Term, typ types.Type) Val { return Val{T: []Term{t}, Typ: typ} }

func (v Val) One() Term {
	if len(v.T) != 1 {
		panic(fmt.Sprintf("expected scalar value, have %d leaves of %v", len(v.T), v.Typ))
	}
	return v.T[0]
}

type EvalCtx struct {
	X       *Exec
	PkgPath string
	Scope   *types.Scope // package scope for identifier resolution
	Vars    map[string]Val
	Lookup  func(name string) (Val, bool) // dynamic lookup (SSA locals)
	Heap    *HeapState
	Old     *HeapState
	InOld   bool
	Entry   map[string]Val // parameter values at function entry: what `old(param)` denotes inside loops
	depth   int
}

func (c *EvalCtx) child() *EvalCtx {
	n := *c
	n.Vars = map[string]Val{}
	for k, v := range c.Vars {
		n.Vars[k] = v
	}
	return &n
}

type evalError struct{ msg string }

func evalFail(format string, a ...interface{}) { panic(evalError{fmt.Sprintf(format, a...)}) }

// EvalBool evaluates a clause to a Bool term; errors are returned.
func (c *EvalCtx) EvalBool(e ast.Expr) (t Term, err error) {
	defer func() {
		if r := recover(); r != nil {
			if ee, ok := r.(evalError); ok {
				err = fmt.Errorf("%s", ee.msg)
				return
			}
			panic(r)
		}
	}()
	v := c.eval(e)
	if v.Typ == nil || !isBool(v.Typ) {
		return Term{}, fmt.Errorf("clause is not boolean")
	}
	return v.One(), nil
}

func (c *EvalCtx) EvalVal(e ast.Expr) (v Val, err error) {
	defer func() {
		if r := recover(); r != nil {
			if ee, ok := r.(evalError); ok {
				err = fmt.Errorf("%s", ee.msg)
				return
			}
			panic(r)
		}
	}()
	return c.eval(e), nil
}

var universeTypes = map[string]types.Type{
	"int": types.Typ[types.Int], "int8": types.Typ[types.Int8], "int16": types.Typ[types.Int16],
	"int32": types.Typ[types.Int32], "int64": types.Typ[types.Int64],
	"uint": types.Typ[types.Uint], "uint8": types.Typ[types.Uint8], "uint16": types.Typ[types.Uint16],
	"uint32": types.Typ[types.Uint32], "uint64": types.Typ[types.Uint64], "uintptr": types.Typ[types.Uintptr],
	"byte": types.Typ[types.Uint8], "rune": types.Typ[types.Int32], "bool": types.Typ[types.Bool],
	"string": types.Typ[types.String], "error": types.Universe.Lookup("error").Type(),
}

func (c *EvalCtx) resolveType(e ast.Expr) types.Type {
	switch t := e.(type) {
	case *ast.Ident:
		if u, ok := universeTypes[t.Name]; ok {
			return u
		}
		if c.Scope != nil {
			if o := c.Scope.Lookup(t.Name); o != nil {
				if tn, ok := o.(*types.TypeName); ok {
					return tn.Type()
				}
			}
		}
	case *ast.StarExpr:
		if el := c.resolveType(t.X); el != nil {
			return types.NewPointer(el)
		}
	case *ast.ArrayType:
		el := c.resolveType(t.Elt)
		if el == nil {
			return nil
		}
		if t.Len == nil {
			return types.NewSlice(el)
		}
		if bl, ok := t.Len.(*ast.BasicLit); ok {
			n, _ := strconv.ParseInt(bl.Value, 0, 64)
			return types.NewArray(el, n)
		}
	case *ast.ParenExpr:
		return c.resolveType(t.X)
	case *ast.SelectorExpr:
		if id, ok := t.X.(*ast.Ident); ok && c.X != nil {
			if p := c.X.W.pkgByName(id.Name); p != nil {
				if o := p.Scope().Lookup(t.Sel.Name); o != nil {
					if tn, ok := o.(*types.TypeName); ok {
						return tn.Type()
					}
				}
			}
		}
	}
	return nil
}

func untyped(v *big.Int) Val { return Val{C: new(big.Int).Set(v)} }

// coerce converts an untyped constant to the given type.
func (c *EvalCtx) coerce(v Val, typ types.Type) Val {
	if v.Typ != nil {
		return v
	}
	if v.Lazy != nil {
		return v.Lazy(typ)
	}
	if w, _, ok := isIntType(typ); ok {
		return scalar(BVConst(v.C, w), typ)
	}
	evalFail("cannot use untyped constant %s as %s", v.C, typ)
	return v
}

func (c *EvalCtx) defaultType(v Val) Val {
	if v.Typ == nil {
		return c.coerce(v, types.Typ[types.Int])
	}
	return v
}

func (c *EvalCtx) heap() *HeapState {
	if c.InOld && c.Old != nil {
		return c.Old
	}
	return c.Heap
}

func (c *EvalCtx) eval(e ast.Expr) Val {
	switch n := e.(type) {
	case *ast.ParenExpr:
		return c.eval(n.X)
	case *ast.BasicLit:
		switch n.Kind {
		case token.INT:
			v, ok := new(big.Int).SetString(strings.ReplaceAll(n.Value, "_", ""), 0)
			if !ok {
				evalFail("bad integer literal %s", n.Value)
			}
			return untyped(v)
		case token.CHAR:
			r, _, _, err := strconv.UnquoteChar(n.Value[1:len(n.Value)-1], '\'')
			if err != nil {
				evalFail("bad char literal %s", n.Value)
			}
			return untyped(big.NewInt(int64(r)))
		case token.STRING:
			s, err := strconv.Unquote(n.Value)
			if err != nil {
				evalFail("bad string literal")
			}
			return scalar(c.X.strLit(s), types.Typ[types.String])
		}
		evalFail("unsupported literal %s", n.Value)
	case *ast.Ident:
		return c.evalIdent(n)
	case *ast.SelectorExpr:
		return c.evalSelector(n)
	case *ast.StarExpr:
		p := c.eval(n.X)
		pt, ok := p.Typ.Underlying().(*types.Pointer)
		if !ok {
			evalFail("dereference of non-pointer")
		}
		loc := c.X.locOf(p, pt.Elem())
		return Val{T: c.X.H.Load(c.heap(), loc), Typ: pt.Elem()}
	case *ast.IndexExpr:
		return c.evalIndex(n)
	case *ast.SliceExpr:
		return c.evalSlice(n)
	case *ast.UnaryExpr:
		if n.Op == token.AND {
			l, err := c.evalLoc(n.X)
			if err != nil {
				evalFail("%v", err)
			}
			if !l.Root || len(l.Chain) != 0 {
				evalFail("address of a location that is not an object")
			}
			return Val{T: []Term{l.Ref}, Typ: types.NewPointer(l.T), Loc: l}
		}
		x := c.eval(n.X)
		if x.Typ == nil && x.Lazy != nil && (n.Op == token.SUB || n.Op == token.XOR) {
			inner, op := x.Lazy, n.Op
			return Val{Lazy: func(typ types.Type) Val {
				v := inner(typ)
				if op == token.SUB {
					return scalar(BVNeg(v.One()), typ)
				}
				return scalar(BVNot(v.One()), typ)
			}}
		}
		switch n.Op {
		case token.NOT:
			return scalar(Not(x.One()), types.Typ[types.Bool])
		case token.SUB:
			if x.Typ == nil {
				return untyped(new(big.Int).Neg(x.C))
			}
			return scalar(BVNeg(x.One()), x.Typ)
		case token.XOR:
			if x.Typ == nil {
				return untyped(new(big.Int).Not(x.C))
			}
			return scalar(BVNot(x.One()), x.Typ)
		case token.ADD:
			return x
		}
		evalFail("unsupported unary operator %s", n.Op)
	case *ast.BinaryExpr:
		return c.evalBinary(n)
	case *ast.CallExpr:
		return c.evalCall(n)
	}
	evalFail("unsupported expression form %T", e)
	return Val{}
}

func (c *EvalCtx) evalIdent(n *ast.Ident) Val {
	switch n.Name {
	case "true":
		return scalar(True, types.Typ[types.Bool])
	case "false":
		return scalar(False, types.Typ[types.Bool])
	case "nil":
		return Val{T: []Term{IntConst(0)}, Typ: types.Typ[types.UntypedNil]}
	}
	if v, ok := c.Vars[n.Name]; ok {
		return v
	}
	if c.InOld && c.Entry != nil {
		if v, ok := c.Entry[n.Name]; ok {
			return v
		}
	}
	if c.Lookup != nil {
		if v, ok := c.Lookup(n.Name); ok {
			return v
		}
	}
	if c.Scope != nil {
		if o := c.Scope.Lookup(n.Name); o != nil {
			return c.evalObject(o)
		}
	}
	evalFail("unknown identifier %q", n.Name)
	return Val{}
}

func (c *EvalCtx) evalObject(o types.Object) Val {
	switch ob := o.(type) {
	case *types.Const:
		return c.constVal(ob.Val(), ob.Type())
	case *types.Var:
		// package-level variable
		return c.X.loadGlobalVar(ob, c.heap())
	}
	evalFail("identifier %s is not a value", o.Name())
	return Val{}
}

func (c *EvalCtx) constVal(cv constant.Value, typ types.Type) Val {
	switch cv.Kind() {
	case constant.Int:
		bi, _ := new(big.Int).SetString(cv.ExactString(), 10)
		if b, ok := typ.Underlying().(*types.Basic); ok && b.Info()&types.IsUntyped != 0 {
			return untyped(bi)
		}
		if w, _, ok := isIntType(typ); ok {
			return scalar(BVConst(bi, w), typ)
		}
		return untyped(bi)
	case constant.Bool:
		if constant.BoolVal(cv) {
			return scalar(True, types.Typ[types.Bool])
		}
		return scalar(False, types.Typ[types.Bool])
	case constant.String:
		return scalar(c.X.strLit(constant.StringVal(cv)), types.Typ[types.String])
	}
	evalFail("unsupported constant kind")
	return Val{}
}

func (c *EvalCtx) evalSelector(n *ast.SelectorExpr) Val {
	// package-qualified identifier?
	if id, ok := n.X.(*ast.Ident); ok {
		if _, isVar := c.Vars[id.Name]; !isVar {
			known := false
			if c.Lookup != nil {
				_, known = c.Lookup(id.Name)
			}
			if !known && (c.Scope == nil || c.Scope.Lookup(id.Name) == nil) {
				if p := c.X.W.pkgByName(id.Name); p != nil {
					if o := p.Scope().Lookup(n.Sel.Name); o != nil {
						return c.evalObject(o)
					}
				}
			}
		}
	}
	x := c.eval(n.X)
	if x.Typ == nil {
		evalFail("selector on constant")
	}
	t := x.Typ
	if pt, ok := t.Underlying().(*types.Pointer); ok {
		st, ok := pt.Elem().Underlying().(*types.Struct)
		if !ok {
			evalFail("selector .%s on pointer to non-struct", n.Sel.Name)
		}
		idx := fieldIndex(st, n.Sel.Name)
		if idx < 0 {
			evalFail("no field %s in %s", n.Sel.Name, pt.Elem())
		}
		loc := c.X.locOf(x, pt.Elem()).Field(idx)
		v := Val{T: c.X.H.Load(c.heap(), loc), Typ: st.Field(idx).Type()}
		if isAggregate(v.Typ) {
			v.Loc = loc // arrays and structs in memory keep their address (for `p.arr[:]`); for pointers Loc means the pointee
		}
		return v
	}
	if st, ok := t.Underlying().(*types.Struct); ok {
		idx := fieldIndex(st, n.Sel.Name)
		if idx < 0 {
			evalFail("no field %s in %s", n.Sel.Name, t)
		}
		lo, hi := fieldRange(st, idx)
		v := Val{T: x.T[lo:hi], Typ: st.Field(idx).Type()}
		if x.Loc != nil && isAggregate(v.Typ) {
			v.Loc = x.Loc.Field(idx) // the field of an object in memory keeps its address (for `x.arr[:]`)
		}
		return v
	}
	evalFail("selector .%s on %s", n.Sel.Name, t)
	return Val{}
}

func fieldIndex(st *types.Struct, name string) int {
	for i := 0; i < st.NumFields(); i++ {
		if st.Field(i).Name() == name {
			return i
		}
	}
	return -1
}

func (c *EvalCtx) asIndex(v Val) Term {
	if v.Typ == nil {
		return BVConst(v.C, 64)
	}
	w, signed, ok := isIntType(v.Typ)
	if !ok {
		evalFail("index is not an integer")
	}
	_ = w
	return Resize(v.One(), 64, signed)
}

func (c *EvalCtx) evalIndex(n *ast.IndexExpr) Val {
	x := c.eval(n.X)
	i := c.asIndex(c.eval(n.Index))
	if x.Typ == nil {
		evalFail("index of constant")
	}
	switch u := x.Typ.Underlying().(type) {
	case *types.Slice:
		loc := sliceElemLoc(x.T[0], BVBin("bvadd", x.T[1], i), u.Elem())
		return Val{T: c.X.H.Load(c.heap(), loc), Typ: u.Elem()}
	case *types.Array:
		out := make([]Term, len(x.T))
		for k := range x.T {
			out[k] = Select(x.T[k], i)
		}
		return Val{T: out, Typ: u.Elem()}
	case *types.Basic:
		if isString(x.Typ) {
			return scalar(c.X.strByte(x.One(), i), types.Typ[types.Uint8])
		}
	case *types.Pointer:
		if at, ok := u.Elem().Underlying().(*types.Array); ok {
			loc := c.X.locOf(x, u.Elem()).Index(i)
			return Val{T: c.X.H.Load(c.heap(), loc), Typ: at.Elem()}
		}
	}
	evalFail("cannot index %s", x.Typ)
	return Val{}
}

func (c *EvalCtx) evalSlice(n *ast.SliceExpr) Val {
	x := c.eval(n.X)
	if at, isArr := x.Typ.Underlying().(*types.Array); isArr && x.Loc != nil && x.Loc.Root && len(x.Loc.Chain) == 0 {
		// an array that lives in memory (a field of an object): the slice aliases it
		n64 := BVInt(at.Len(), 64)
		x = Val{T: []Term{x.Loc.Ref, BVInt(0, 64), n64, n64}, Typ: types.NewSlice(at.Elem())}
	}
	sl, ok := x.Typ.Underlying().(*types.Slice)
	if !ok {
		evalFail("slice expression on %s", x.Typ)
	}
	_ = sl
	lo := BVInt(0, 64)
	hi := x.T[2]
	if n.Low != nil {
		lo = c.asIndex(c.eval(n.Low))
	}
	if n.High != nil {
		hi = c.asIndex(c.eval(n.High))
	}
	return Val{T: []Term{x.T[0], BVBin("bvadd", x.T[1], lo), BVBin("bvsub", hi, lo), BVBin("bvsub", x.T[3], lo)}, Typ: x.Typ}
}

func (c *EvalCtx) evalBinary(n *ast.BinaryExpr) Val {
	boolT := types.Typ[types.Bool]
	switch n.Op {
	case token.LAND:
		return scalar(And(c.eval(n.X).One(), c.eval(n.Y).One()), boolT)
	case token.LOR:
		return scalar(Or(c.eval(n.X).One(), c.eval(n.Y).One()), boolT)
	}
	x := c.eval(n.X)
	y := c.eval(n.Y)
	if n.Op == token.SHL || n.Op == token.SHR {
		if x.Typ == nil && y.Typ == nil {
			if n.Op == token.SHL {
				return untyped(new(big.Int).Lsh(x.C, uint(y.C.Int64())))
			}
			return untyped(new(big.Int).Rsh(x.C, uint(y.C.Int64())))
		}
		if x.Typ == nil && x.Lazy == nil {
			// untyped constant shifted by a non-constant count: the type comes from the context
			xc, yv, op := x.C, c.defaultType(y), n.Op
			return Val{Lazy: func(typ types.Type) Val {
				w, signed, ok := isIntType(typ)
				if !ok {
					evalFail("shift of constant in non-integer context")
				}
				o := "bvshl"
				if op == token.SHR {
					o = "bvlshr"
					if signed {
						o = "bvashr"
					}
				}
				return scalar(BVBin(o, BVConst(xc, w), shiftCount(yv, w)), typ)
			}}
		}
		x = c.defaultType(x)
		w, signed, ok := isIntType(x.Typ)
		if !ok {
			evalFail("shift of non-integer")
		}
		cnt := shiftCount(c.defaultType(y), w)
		op := "bvshl"
		if n.Op == token.SHR {
			op = "bvlshr"
			if signed {
				op = "bvashr"
			}
		}
		return scalar(BVBin(op, x.One(), cnt), x.Typ)
	}
	if (x.Typ == nil && x.Lazy != nil && y.Typ == nil) || (y.Typ == nil && y.Lazy != nil && x.Typ == nil) {
		switch n.Op {
		case token.ADD, token.SUB, token.MUL, token.AND, token.OR, token.XOR, token.AND_NOT, token.QUO, token.REM:
			// still untyped: the type comes from the context
			xv, yv, nn := x, y, n
			return Val{Lazy: func(typ types.Type) Val {
				return c.arith(nn, c.coerce(xv, typ), c.coerce(yv, typ))
			}}
		}
		x = c.defaultType(x)
		y = c.defaultType(y)
	}
	// untyped constant arithmetic
	if x.Typ == nil && y.Typ == nil {
		r := new(big.Int)
		switch n.Op {
		case token.ADD:
			return untyped(r.Add(x.C, y.C))
		case token.SUB:
			return untyped(r.Sub(x.C, y.C))
		case token.MUL:
			return untyped(r.Mul(x.C, y.C))
		case token.QUO:
			return untyped(r.Quo(x.C, y.C))
		case token.REM:
			return untyped(r.Rem(x.C, y.C))
		case token.AND:
			return untyped(r.And(x.C, y.C))
		case token.OR:
			return untyped(r.Or(x.C, y.C))
		case token.XOR:
			return untyped(r.Xor(x.C, y.C))
		}
		cmp := x.C.Cmp(y.C)
		var b bool
		switch n.Op {
		case token.EQL:
			b = cmp == 0
		case token.NEQ:
			b = cmp != 0
		case token.LSS:
			b = cmp < 0
		case token.LEQ:
			b = cmp <= 0
		case token.GTR:
			b = cmp > 0
		case token.GEQ:
			b = cmp >= 0
		default:
			evalFail("unsupported constant operator %s", n.Op)
		}
		if b {
			return scalar(True, boolT)
		}
		return scalar(False, boolT)
	}
	if x.Typ == nil {
		x = c.coerce(x, y.Typ)
	}
	if y.Typ == nil {
		y = c.coerce(y, x.Typ)
	}
	return c.arith(n, x, y)
}

// arith applies a binary operator to two typed operands.
func (c *EvalCtx) arith(n *ast.BinaryExpr, x, y Val) Val {
	boolT := types.Typ[types.Bool]
	// equality on arbitrary values
	if n.Op == token.EQL || n.Op == token.NEQ {
		if len(x.T) != len(y.T) {
			evalFail("comparison of values with different shapes: %v vs %v", x.Typ, y.Typ)
		}
		var eqs []Term
		for i := range x.T {
			if x.T[i].Sort != y.T[i].Sort {
				evalFail("comparison of different sorts: %v vs %v", x.Typ, y.Typ)
			}
			eqs = append(eqs, Eq(x.T[i], y.T[i]))
		}
		r := And(eqs...)
		if n.Op == token.NEQ {
			r = Not(r)
		}
		return scalar(r, boolT)
	}
	w, signed, ok := isIntType(x.Typ)
	if !ok {
		evalFail("operator %s on non-integer %s", n.Op, x.Typ)
	}
	w2, _, ok2 := isIntType(y.Typ)
	if !ok2 || w2 != w {
		evalFail("operator %s: mismatched operand types %s and %s", n.Op, x.Typ, y.Typ)
	}
	a, b := x.One(), y.One()
	switch n.Op {
	case token.ADD:
		return scalar(BVBin("bvadd", a, b), x.Typ)
	case token.SUB:
		return scalar(BVBin("bvsub", a, b), x.Typ)
	case token.MUL:
		return scalar(BVBin("bvmul", a, b), x.Typ)
	case token.QUO:
		if signed {
			return scalar(BVBin("bvsdiv", a, b), x.Typ)
		}
		return scalar(BVBin("bvudiv", a, b), x.Typ)
	case token.REM:
		if signed {
			return scalar(BVBin("bvsrem", a, b), x.Typ)
		}
		return scalar(BVBin("bvurem", a, b), x.Typ)
	case token.AND:
		return scalar(BVBin("bvand", a, b), x.Typ)
	case token.OR:
		return scalar(BVBin("bvor", a, b), x.Typ)
	case token.XOR:
		return scalar(BVBin("bvxor", a, b), x.Typ)
	case token.AND_NOT:
		return scalar(BVBin("bvand", a, BVNot(b)), x.Typ)
	}
	pre := "bvu"
	if signed {
		pre = "bvs"
	}
	switch n.Op {
	case token.LSS:
		return scalar(BVCmp(pre+"lt", a, b), boolT)
	case token.LEQ:
		return scalar(BVCmp(pre+"le", a, b), boolT)
	case token.GTR:
		return scalar(BVCmp(pre+"gt", a, b), boolT)
	case token.GEQ:
		return scalar(BVCmp(pre+"ge", a, b), boolT)
	}
	evalFail("unsupported operator %s", n.Op)
	return Val{}
}

// shiftCount adapts a shift count to the width of the shifted operand with Go semantics
// (counts >= width shift everything out).
func shiftCount(y Val, w int) Term {
	yw, _, ok := isIntType(y.Typ)
	if !ok {
		evalFail("shift count is not an integer")
	}
	cnt := y.One()
	if yw == w {
		return cnt
	}
	if yw < w {
		return Resize(cnt, w, false)
	}
	// wider count: saturate
	big := BVCmp("bvuge", cnt, BVInt(int64(w), yw))
	return Ite(big, BVInt(int64(w), w), Resize(cnt, w, false))
}

func (c *EvalCtx) evalCall(n *ast.CallExpr) Val {
	boolT := types.Typ[types.Bool]
	if id, ok := n.Fun.(*ast.Ident); ok {
		switch id.Name {
		case "__imp":
			return scalar(Implies(c.eval(n.Args[0]).One(), c.eval(n.Args[1]).One()), boolT)
		case "__forall", "__exists":
			fl, ok := n.Args[0].(*ast.FuncLit)
			if !ok {
				evalFail("malformed quantifier")
			}
			if id.Name == "__forall" {
				if v, ok := c.expandBounded(fl); ok {
					return v
				}
			}
			cc := c.child()
			var binders []string
			for _, p := range fl.Type.Params.List {
				typ := c.resolveType(p.Type)
				if typ == nil {
					evalFail("unknown binder type")
				}
				ls := leaves(typ)
				if len(ls) != 1 {
					evalFail("quantification over composite type %s", typ)
				}
				for _, nm := range p.Names {
					bn := c.X.S.freshName("q_" + nm.Name)
					binders = append(binders, fmt.Sprintf("(%s %s)", bn, ls[0].Sort))
					cc.Vars[nm.Name] = scalar(Term{bn, ls[0].Sort}, typ)
				}
			}
			ret := fl.Body.List[0].(*ast.ReturnStmt).Results[0]
			body := cc.eval(ret).One()
			q := "forall"
			if id.Name == "__exists" {
				q = "exists"
			}
			return scalar(Term{fmt.Sprintf("(%s (%s) %s)", q, strings.Join(binders, " "), body.S), SBool}, boolT)
		case "old":
			cc := *c
			cc.InOld = true
			return cc.eval(n.Args[0])
		case "len", "cap":
			x := c.eval(n.Args[0])
			intT := types.Typ[types.Int]
			if x.Typ == nil {
				evalFail("len of constant")
			}
			switch u := x.Typ.Underlying().(type) {
			case *types.Slice:
				if id.Name == "len" {
					return scalar(x.T[2], intT)
				}
				return scalar(x.T[3], intT)
			case *types.Array:
				return scalar(BVInt(u.Len(), 64), intT)
			case *types.Basic:
				if isString(x.Typ) {
					return scalar(c.X.strLen(x.One()), intT)
				}
			case *types.Pointer:
				if at, ok := u.Elem().Underlying().(*types.Array); ok {
					return scalar(BVInt(at.Len(), 64), intT)
				}
			}
			evalFail("len/cap of %s", x.Typ)
		case "ite":
			cnd := c.eval(n.Args[0]).One()
			a := c.eval(n.Args[1])
			b := c.eval(n.Args[2])
			if a.Typ == nil && b.Typ != nil {
				a = c.coerce(a, b.Typ)
			}
			if b.Typ == nil && a.Typ != nil {
				b = c.coerce(b, a.Typ)
			}
			if a.Typ == nil && b.Typ == nil {
				// both branches untyped constants: typed by the context
				av, bv := a, b
				return Val{Lazy: func(typ types.Type) Val {
					x1, y1 := c.coerce(av, typ), c.coerce(bv, typ)
					return scalar(Ite(cnd, x1.One(), y1.One()), typ)
				}}
			}
			a, b = c.defaultType(a), c.defaultType(b)
			out := make([]Term, len(a.T))
			for i := range a.T {
				out[i] = Ite(cnd, a.T[i], b.T[i])
			}
			return Val{T: out, Typ: a.Typ}
		}
		// conversion to a universe or package type
		if typ := c.resolveType(id); typ != nil {
			if _, shadow := c.Vars[id.Name]; !shadow {
				return c.convert(c.eval(n.Args[0]), typ)
			}
		}
		// spec function / predicate
		if sf := c.X.W.Contracts.Specs[c.PkgPath+"."+id.Name]; sf != nil {
			return c.callSpec(sf, n.Args)
		}
		// uninterpreted / builtin spec-level functions
		if v, ok := c.X.specBuiltin(c, id.Name, n.Args); ok {
			return v
		}
		evalFail("unknown function %q in specification", id.Name)
	}
	// conversion with composite type expression, e.g. []byte(x) — unsupported; pkg.Type(x)
	if typ := c.resolveType(n.Fun); typ != nil {
		return c.convert(c.eval(n.Args[0]), typ)
	}
	if se, ok := n.Fun.(*ast.SelectorExpr); ok {
		if id, ok := se.X.(*ast.Ident); ok {
			if p := c.X.W.pkgByName(id.Name); p != nil {
				if sf := c.X.W.Contracts.Specs[p.Path()+"."+se.Sel.Name]; sf != nil {
					cc := *c
					cc.PkgPath = p.Path()
					cc.Scope = p.Scope()
					return cc.callSpecWithArgs(sf, c.evalArgs(n.Args))
				}
			}
		}
	}
	evalFail("unsupported call in specification")
	return Val{}
}

// expandBounded expands `forall k T :: lo <= k && k < hi ==> body` with constant bounds spanning at
// most 64 values into a conjunction of instances (quantifier-free).
func (c *EvalCtx) expandBounded(fl *ast.FuncLit) (Val, bool) {
	if len(fl.Type.Params.List) != 1 || len(fl.Type.Params.List[0].Names) != 1 {
		return Val{}, false
	}
	name := fl.Type.Params.List[0].Names[0].Name
	typ := c.resolveType(fl.Type.Params.List[0].Type)
	if typ == nil {
		return Val{}, false
	}
	w, _, ok := isIntType(typ)
	if !ok {
		return Val{}, false
	}
	ret := fl.Body.List[0].(*ast.ReturnStmt).Results[0]
	call, ok := ret.(*ast.CallExpr)
	if !ok {
		return Val{}, false
	}
	if fid, ok := call.Fun.(*ast.Ident); !ok || fid.Name != "__imp" {
		return Val{}, false
	}
	guard, ok := call.Args[0].(*ast.BinaryExpr)
	if !ok || guard.Op != token.LAND {
		return Val{}, false
	}
	loE, ok1 := guard.X.(*ast.BinaryExpr)
	hiE, ok2 := guard.Y.(*ast.BinaryExpr)
	if !ok1 || !ok2 || loE.Op != token.LEQ || hiE.Op != token.LSS {
		return Val{}, false
	}
	isName := func(e ast.Expr) bool { id, ok := e.(*ast.Ident); return ok && id.Name == name }
	if !isName(loE.Y) || !isName(hiE.X) {
		return Val{}, false
	}
	constOf := func(e ast.Expr) (int64, bool) {
		bl, ok := e.(*ast.BasicLit)
		if !ok || bl.Kind != token.INT {
			return 0, false
		}
		v, err := strconv.ParseInt(bl.Value, 0, 64)
		return v, err == nil
	}
	lo, okl := constOf(loE.X)
	hi, okh := constOf(hiE.Y)
	if !okl || !okh || hi-lo > 64 || hi < lo {
		return Val{}, false
	}
	var conj []Term
	for k := lo; k < hi; k++ {
		cc := c.child()
		cc.Vars[name] = scalar(BVInt(k, w), typ)
		conj = append(conj, cc.eval(call.Args[1]).One())
	}
	return scalar(And(conj...), types.Typ[types.Bool]), true
}

func (c *EvalCtx) evalArgs(args []ast.Expr) []Val {
	out := make([]Val, len(args))
	for i, a := range args {
		out[i] = c.eval(a)
	}
	return out
}

func (c *EvalCtx) callSpec(sf *SpecFunc, args []ast.Expr) Val {
	return c.callSpecWithArgs(sf, c.evalArgs(args))
}

func (c *EvalCtx) callSpecWithArgs(sf *SpecFunc, args []Val) Val {
	if len(args) != len(sf.Params) {
		evalFail("%s: %d arguments for %d parameters", sf.Name, len(args), len(sf.Params))
	}
	if c.depth > 40 {
		evalFail("spec function recursion too deep at %s", sf.Name)
	}
	cc := *c
	cc.depth++
	cc.Vars = map[string]Val{}
	cc.Lookup = nil
	for i, p := range sf.Params {
		typ := c.resolveType(p.Type)
		if typ == nil {
			evalFail("%s: unknown parameter type for %s", sf.Name, p.Name)
		}
		a := args[i]
		if a.Typ == nil {
			a = c.coerce(a, typ)
		} else if _, isNil := a.Typ.(*types.Basic); isNil && a.Typ == types.Typ[types.UntypedNil] {
			a = Val{T: zeroLeaves(typ), Typ: typ}
		} else if len(a.T) != nLeaves(typ) {
			evalFail("%s: argument %d has shape of %s, parameter is %s", sf.Name, i, a.Typ, typ)
		} else {
			for k, l := range leaves(typ) {
				if a.T[k].Sort != l.Sort {
					evalFail("%s: argument %d of type %s does not fit parameter type %s", sf.Name, i, a.Typ, typ)
				}
			}
			a.Typ = typ
		}
		cc.Vars[p.Name] = a
	}
	if sf.Uninterpreted {
		rt := c.resolveType(sf.Result)
		if rt == nil {
			evalFail("%s: unknown result type", sf.Name)
		}
		rl := leaves(rt)
		if len(rl) != 1 {
			evalFail("%s: uninterpreted functions return scalars", sf.Name)
		}
		var sorts []Sort
		var ts []Term
		for _, p := range sf.Params {
			for _, t := range cc.Vars[p.Name].T {
				sorts = append(sorts, t.Sort)
				ts = append(ts, t)
			}
		}
		name := "uf_" + sanitize(shortPkg(sf.PkgPath)+"."+sf.Name)
		c.X.S.DeclareFun(name, sorts, rl[0].Sort)
		return scalar(app(rl[0].Sort, name, ts...), rt)
	}
	r := cc.eval(sf.Body)
	if sf.Result == nil {
		if r.Typ == nil || !isBool(r.Typ) {
			evalFail("pred %s is not boolean", sf.Name)
		}
		return r
	}
	rt := c.resolveType(sf.Result)
	if rt == nil {
		evalFail("%s: unknown result type", sf.Name)
	}
	if r.Typ == nil {
		r = c.coerce(r, rt)
	}
	r.Typ = rt
	return r
}

func (c *EvalCtx) convert(v Val, typ types.Type) Val {
	if v.Typ == nil {
		return c.coerce(v, typ)
	}
	if w, _, ok := isIntType(typ); ok {
		if _, ssigned, ok2 := isIntType(v.Typ); ok2 {
			return scalar(Resize(v.One(), w, ssigned), typ)
		}
	}
	if len(v.T) == nLeaves(typ) {
		okAll := true
		for k, l := range leaves(typ) {
			if v.T[k].Sort != l.Sort {
				okAll = false
			}
		}
		if okAll {
			return Val{T: v.T, Typ: typ, Loc: v.Loc}
		}
	}
	evalFail("unsupported conversion from %s to %s", v.Typ, typ)
	return Val{}
}

func isAggregate(t types.Type) bool {
	switch t.Underlying().(type) {
	case *types.Array, *types.Struct:
		return true
	}
	return false
}
