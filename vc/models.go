package main

// Definitional models of standard-library functions, and spec-level builtin functions.

import (
	"fmt"
	"go/ast"
	"go/types"
	"math/big"
	"strings"

	"golang.org/x/tools/go/ssa"
)

type modelFn func(f *frame, t *ssa.Call, args []Val)

var models = map[string]modelFn{}
var invokeModels = map[string]func(f *frame, t *ssa.Call, recv Val, args []Val){}

func init() {
	for _, e := range []struct {
		name string
		big  bool
	}{{"(encoding/binary.bigEndian)", true}, {"(encoding/binary.littleEndian)", false}} {
		for _, w := range []int{16, 32, 64} {
			w, bigE := w, e.big
			models[fmt.Sprintf("%s.Uint%d", e.name, w)] = func(f *frame, t *ssa.Call, args []Val) {
				f.binaryGet(t, args[1], w, bigE)
			}
			models[fmt.Sprintf("%s.PutUint%d", e.name, w)] = func(f *frame, t *ssa.Call, args []Val) {
				f.binaryPut(t, args[1], args[2], w, bigE)
			}
		}
	}
	for _, w := range []int{8, 16, 32, 64} {
		w := w
		models[fmt.Sprintf("math/bits.TrailingZeros%d", w)] = func(f *frame, t *ssa.Call, args []Val) {
			f.set(t, scalar(f.x.bitsFn("tz", w, args[0].One()), t.Type()))
		}
		models[fmt.Sprintf("math/bits.LeadingZeros%d", w)] = func(f *frame, t *ssa.Call, args []Val) {
			f.set(t, scalar(f.x.bitsFn("lz", w, args[0].One()), t.Type()))
		}
		models[fmt.Sprintf("math/bits.OnesCount%d", w)] = func(f *frame, t *ssa.Call, args []Val) {
			f.set(t, scalar(f.x.bitsFn("popcount", w, args[0].One()), t.Type()))
		}
		models[fmt.Sprintf("math/bits.Len%d", w)] = func(f *frame, t *ssa.Call, args []Val) {
			f.set(t, scalar(BVBin("bvsub", BVInt(int64(w), 64), f.x.bitsFn("lz", w, args[0].One())), t.Type()))
		}
	}
	models["math/bits.TrailingZeros"] = models["math/bits.TrailingZeros64"]
	models["math/bits.LeadingZeros"] = models["math/bits.LeadingZeros64"]
	models["math/bits.OnesCount"] = models["math/bits.OnesCount64"]
	models["math/bits.Len"] = models["math/bits.Len64"]

	nonNilErr := func(f *frame, t *ssa.Call, args []Val) {
		r := f.x.S.Declare("err", SInt)
		f.assume(IntLt(IntConst(0), r))
		f.vals[t] = Val{T: []Term{r}, Typ: t.Type()}
	}
	models["errors.New"] = nonNilErr
	models["fmt.Errorf"] = nonNilErr
	absStr := func(f *frame, t *ssa.Call, args []Val) {
		r := f.x.S.Declare("str", SInt)
		f.assume(IntLe(IntConst(0), r))
		f.assume(BVCmp("bvule", f.x.strLen(r), sizeLimit))
		f.vals[t] = Val{T: []Term{r}, Typ: t.Type()}
	}
	models["fmt.Sprintf"] = absStr
	models["fmt.Sprint"] = absStr
	for _, n := range []string{"strings.HasPrefix", "strings.HasSuffix", "bytes.HasPrefix", "bytes.HasSuffix"} {
		isBytes := strings.HasPrefix(n, "bytes.")
		models[n] = func(f *frame, t *ssa.Call, args []Val) {
			x := f.x
			r := x.S.Declare("hasaffix", SBool)
			var ls, lp Term
			if isBytes {
				ls, lp = args[0].T[2], args[1].T[2]
			} else {
				ls, lp = x.strLen(args[0].One()), x.strLen(args[1].One())
			}
			// law: a string that has the prefix/suffix is at least as long as it
			f.assume(Implies(r, BVCmp("bvuge", ls, lp)))
			f.vals[t] = Val{T: []Term{r}, Typ: t.Type()}
		}
	}
	for _, n := range []string{"strings.IndexByte", "strings.Index", "strings.LastIndex", "strings.LastIndexByte", "strings.IndexRune", "bytes.IndexByte", "bytes.Index"} {
		isBytes := strings.HasPrefix(n, "bytes.")
		models[n] = func(f *frame, t *ssa.Call, args []Val) {
			x := f.x
			r := x.S.Declare("index", SBV(64))
			var ls Term
			if isBytes {
				ls = args[0].T[2]
			} else {
				ls = x.strLen(args[0].One())
			}
			// law: -1 or a valid position
			f.assume(Or(Eq(r, BVInt(-1, 64)), BVCmp("bvult", r, ls)))
			f.vals[t] = Val{T: []Term{r}, Typ: t.Type()}
		}
	}
	models["bytes.Equal"] = func(f *frame, t *ssa.Call, args []Val) {
		f.set(t, scalar(f.x.bytesEqual(f, args[0], args[1]), t.Type()))
	}
	models["hash/crc32.Checksum"] = func(f *frame, t *ssa.Call, args []Val) {
		x := f.x
		x.S.DeclareFun("crc32", []Sort{SArr(SBV(64), SBV(8)), SBV(64), SInt}, SBV(32))
		r := app(SBV(32), "crc32", x.normBytes(f.cur.heap, args[0]), args[0].T[2], args[1].One())
		f.set(t, scalar(r, t.Type()))
	}
	models["crypto/sha256.Sum256"] = func(f *frame, t *ssa.Call, args []Val) {
		x := f.x
		f.set(t, Val{T: []Term{x.sha256(x.normBytes(f.cur.heap, args[0]), args[0].T[2])}, Typ: t.Type()})
	}
	models["time.Now"] = func(f *frame, t *ssa.Call, args []Val) { f.setFreshResult(t) }
	// locks have no sequential effect (scheduling is outside the model)
	for _, n := range []string{"(*sync.Mutex).Lock", "(*sync.Mutex).Unlock", "(*sync.RWMutex).Lock", "(*sync.RWMutex).Unlock", "(*sync.RWMutex).RLock", "(*sync.RWMutex).RUnlock"} {
		models[n] = func(f *frame, t *ssa.Call, args []Val) {
			f.x.note("sync locks are no-ops: execution is modelled as single-threaded")
			f.vals[t] = Val{Typ: t.Type()}
		}
	}
	// ed25519.Verify panics unless the public key has exactly 32 bytes; its verdict is an uninterpreted function
	models["crypto/ed25519.Verify"] = func(f *frame, t *ssa.Call, args []Val) {
		x := f.x
		f.safe("ed25519", t.Pos(), isCallExpr, Eq(args[0].T[2], BVInt(32, 64)), "ed25519.Verify panics on a public key whose length is not 32")
		x.S.DeclareFun("ed25519verify", []Sort{SArr(SBV(64), SBV(8)), SArr(SBV(64), SBV(8)), SBV(64), SArr(SBV(64), SBV(8)), SBV(64)}, SBool)
		r := app(SBool, "ed25519verify", x.normBytes(f.cur.heap, args[0]), x.normBytes(f.cur.heap, args[1]), args[1].T[2], x.normBytes(f.cur.heap, args[2]), args[2].T[2])
		f.set(t, scalar(r, t.Type()))
	}
	// io.ReadFull(r, buf): fills buf from the reader or fails; only buf's backing array is written
	models["io.ReadFull"] = func(f *frame, t *ssa.Call, args []Val) {
		x := f.x
		buf := args[1]
		f.havocBytes(buf)
		n := x.S.Declare("readn", SBV(64))
		e := x.S.Declare("readerr", SInt)
		f.assume(And(IntLe(IntConst(0), e), BVCmp("bvule", n, buf.T[2]), Implies(Eq(e, IntConst(0)), Eq(n, buf.T[2]))))
		x.note("io.ReadFull: reads exactly len(buf) bytes or returns an error; the bytes read are arbitrary (reader contents are not modelled)")
		f.vals[t] = Val{T: []Term{n, e}, Typ: t.Type()}
	}
	models["crypto/sha256.New"] = func(f *frame, t *ssa.Call, args []Val) {
		x := f.x
		h := f.freshRef()
		f.cur.heap = x.H.SetAt(f.cur.heap, "C.hashstate", h, Store(x.H.Get(f.cur.heap, "C.hashstate", SArr(SInt, SInt)), h, IntConst(0)))
		f.vals[t] = Val{T: []Term{h}, Typ: t.Type()}
	}
	invokeModels["hash.Hash.Write"] = func(f *frame, t *ssa.Call, recv Val, args []Val) {
		x := f.x
		x.S.DeclareFun("hcat", []Sort{SInt, SArr(SBV(64), SBV(8)), SBV(64)}, SInt)
		st := x.H.Get(f.cur.heap, "C.hashstate", SArr(SInt, SInt))
		ns := app(SInt, "hcat", Select(st, recv.One()), x.normBytes(f.cur.heap, args[0]), args[0].T[2])
		f.cur.heap = x.H.SetAt(f.cur.heap, "C.hashstate", recv.One(), Store(st, recv.One(), ns))
		f.vals[t] = Val{T: []Term{args[0].T[2], IntConst(0)}, Typ: t.Type()}
	}
	invokeModels["hash.Hash.Sum"] = func(f *frame, t *ssa.Call, recv Val, args []Val) {
		x := f.x
		x.S.DeclareFun("hfin", []Sort{SInt}, SArr(SBV(64), SBV(8)))
		x.note("hash.Hash.Sum(b): modelled for the b == nil use (digest in a fresh 32-byte slice); digests are uninterpreted functions of the absorbed byte sequence")
		st := x.H.Get(f.cur.heap, "C.hashstate", SArr(SInt, SInt))
		ref := f.freshRef()
		m := x.H.Get(f.cur.heap, "M.uint8[]", wrapSort(SBV(8), 1))
		f.cur.heap = x.H.SetAt(f.cur.heap, "M.uint8[]", ref, Store(m, ref, app(SArr(SBV(64), SBV(8)), "hfin", Select(st, recv.One()))))
		n := BVBin("bvadd", args[0].T[2], BVInt(32, 64))
		f.safe("sum", t.Pos(), isCallExpr, Eq(args[0].T[2], BVInt(0, 64)), "hash.Hash.Sum is only modelled for an empty prefix")
		f.vals[t] = Val{T: []Term{ref, BVInt(0, 64), n, n}, Typ: t.Type()}
	}
	invokeModels["crypto/cipher.Stream.XORKeyStream"] = func(f *frame, t *ssa.Call, recv Val, args []Val) {
		x := f.x
		f.safe("xor", t.Pos(), isCallExpr, BVCmp("bvuge", args[0].T[2], args[1].T[2]), "XORKeyStream panics when dst is shorter than src")
		f.havocBytes(args[0])
		x.note("cipher.Stream.XORKeyStream: writes dst only; the key stream is not modelled (output bytes arbitrary)")
		f.vals[t] = Val{Typ: t.Type()}
	}
}

func (x *Exec) sha256(norm, n Term) Term {
	x.S.DeclareFun("sha256", []Sort{SArr(SBV(64), SBV(8)), SBV(64)}, SArr(SBV(64), SBV(8)))
	return app(SArr(SBV(64), SBV(8)), "sha256", norm, n)
}

// normBytes is the content of a byte slice as an array indexed from 0 (zero beyond the length),
// so that equal contents give equal terms whatever the backing array and offset.
func (x *Exec) normBytes(h *HeapState, sl Val) Term {
	a := x.H.Get(h, "M.uint8[]", wrapSort(SBV(8), 1))
	inner := Select(a, sl.T[0])
	if c, ok := sl.T[2].Const(); ok && c.Cmp(big.NewInt(40)) <= 0 {
		r := ConstArray(SArr(SBV(64), SBV(8)), BVInt(0, 8))
		for j := int64(0); j < c.Int64(); j++ {
			r = Store(r, BVInt(j, 64), Select(inner, BVBin("bvadd", sl.T[1], BVInt(j, 64))))
		}
		return x.S.Define("norm", r)
	}
	return x.S.Define("norm", lambdaArr(SBV(8), func(j Term) Term {
		return Ite(BVCmp("bvult", j, sl.T[2]), Select(inner, BVBin("bvadd", sl.T[1], j)), BVInt(0, 8))
	}, x))
}

func (x *Exec) bytesEqual(f *frame, a, b Val) Term {
	h := f.cur.heap
	m := x.H.Get(h, "M.uint8[]", wrapSort(SBV(8), 1))
	at := func(s Val, j Term) Term { return Select(Select(m, s.T[0]), BVBin("bvadd", s.T[1], j)) }
	for _, pair := range [][2]Val{{a, b}, {b, a}} {
		if c, ok := pair[0].T[2].Const(); ok && c.Cmp(big.NewInt(64)) <= 0 {
			eqs := []Term{Eq(pair[1].T[2], pair[0].T[2])}
			for j := int64(0); j < c.Int64(); j++ {
				eqs = append(eqs, Eq(at(a, BVInt(j, 64)), at(b, BVInt(j, 64))))
			}
			return And(eqs...)
		}
	}
	r := x.S.Declare("byteseq", SBool)
	j := x.S.freshName("j")
	jt := Term{j, SBV(64)}
	all := fmt.Sprintf("(forall ((%s (_ BitVec 64))) (=> (bvult %s %s) (= %s %s)))", j, j, a.T[2].S, at(a, jt).S, at(b, jt).S)
	f.assume(Eq(r, And(Eq(a.T[2], b.T[2]), Term{all, SBool})))
	return r
}

func (f *frame) binaryGet(t *ssa.Call, sl Val, w int, bigE bool) {
	x := f.x
	nb := int64(w / 8)
	f.safe("index", t.Pos(), isCallExpr, BVCmp("bvuge", sl.T[2], BVInt(nb, 64)), fmt.Sprintf("binary.Uint%d needs %d bytes", w, nb))
	m := x.H.Get(f.cur.heap, "M.uint8[]", wrapSort(SBV(8), 1))
	inner := Select(m, sl.T[0])
	var bs []Term
	for j := int64(0); j < nb; j++ {
		bs = append(bs, Select(inner, BVBin("bvadd", sl.T[1], BVInt(j, 64))))
	}
	if !bigE {
		for i, j := 0, len(bs)-1; i < j; i, j = i+1, j-1 {
			bs[i], bs[j] = bs[j], bs[i]
		}
	}
	f.set(t, scalar(Concat(bs...), t.Type()))
}

func (f *frame) binaryPut(t *ssa.Call, sl Val, v Val, w int, bigE bool) {
	x := f.x
	nb := w / 8
	f.safe("index", t.Pos(), isCallExpr, BVCmp("bvuge", sl.T[2], BVInt(int64(nb), 64)), fmt.Sprintf("binary.PutUint%d needs %d bytes", w, nb))
	m := x.H.Get(f.cur.heap, "M.uint8[]", wrapSort(SBV(8), 1))
	inner := Select(m, sl.T[0])
	for j := 0; j < nb; j++ {
		var hi int
		if bigE {
			hi = w - 1 - 8*j
		} else {
			hi = 8*j + 7
		}
		inner = Store(inner, BVBin("bvadd", sl.T[1], BVInt(int64(j), 64)), Extract(v.One(), hi, hi-7))
	}
	f.cur.heap = x.H.SetAt(f.cur.heap, "M.uint8[]", sl.T[0], Store(m, sl.T[0], inner))
	f.vals[t] = Val{Typ: t.Type()}
}

// bitsFn returns the 64-bit result of tz/lz/popcount on a w-bit operand, defining the function once.
func (x *Exec) bitsFn(kind string, w int, arg Term) Term {
	name := fmt.Sprintf("%s%d", kind, w)
	if !x.S.names[name] {
		x.S.names[name] = true
		var body string
		switch kind {
		case "tz":
			body = fmt.Sprintf("(_ bv%d 64)", w)
			for i := w - 1; i >= 0; i-- {
				body = fmt.Sprintf("(ite (= ((_ extract %d %d) x) #b1) (_ bv%d 64) %s)", i, i, i, body)
			}
		case "lz":
			body = fmt.Sprintf("(_ bv%d 64)", w)
			for i := 0; i < w; i++ {
				body = fmt.Sprintf("(ite (= ((_ extract %d %d) x) #b1) (_ bv%d 64) %s)", i, i, w-1-i, body)
			}
		case "popcount":
			var parts []string
			for i := 0; i < w; i++ {
				parts = append(parts, fmt.Sprintf("((_ zero_extend 63) ((_ extract %d %d) x))", i, i))
			}
			body = "(bvadd " + strings.Join(parts, " ") + ")"
		}
		x.S.Raw(fmt.Sprintf("(define-fun %s ((x (_ BitVec %d))) (_ BitVec 64) %s)", name, w, body))
	}
	return app(SBV(64), name, arg)
}

// specBuiltin resolves spec-level builtin functions that have no Go counterpart in scope.
func (x *Exec) specBuiltin(c *EvalCtx, name string, args []ast.Expr) (Val, bool) {
	intT := types.Typ[types.Int]
	for _, k := range []string{"tz", "lz", "popcount"} {
		for _, w := range []int{8, 16, 32, 64} {
			if name == fmt.Sprintf("%s%d", k, w) {
				a := c.eval(args[0])
				if a.Typ == nil {
					a = scalar(BVConst(a.C, w), nil)
				}
				if a.One().Sort.BVWidth() != w {
					evalFail("%s applied to a %d-bit operand", name, a.One().Sort.BVWidth())
				}
				return scalar(x.bitsFn(k, w, a.One()), intT), true
			}
		}
	}
	switch name {
	case "sext", "zext": // sext(x, w) / zext(x, w): resize to w bits, yielding uintW/intW
		a := c.defaultType(c.eval(args[0]))
		wv := c.eval(args[1])
		if wv.Typ != nil {
			evalFail("width must be constant")
		}
		w := int(wv.C.Int64())
		var typ types.Type
		for n, t := range universeTypes {
			if ww, s, ok := isIntType(t); ok && ww == w && s == (name == "sext") && (n == fmt.Sprintf("int%d", w) || n == fmt.Sprintf("uint%d", w)) {
				typ = t
			}
		}
		if typ == nil {
			evalFail("unsupported width %d", w)
		}
		return scalar(Resize(a.One(), w, name == "sext"), typ), true
	case "sha256": // sha256(byteslice) -> [32]byte
		a := c.eval(args[0])
		if _, ok := a.Typ.Underlying().(*types.Slice); !ok {
			evalFail("sha256 expects a byte slice")
		}
		arr := types.NewArray(types.Typ[types.Uint8], 32)
		return Val{T: []Term{x.sha256(x.normBytes(c.heap(), a), a.T[2])}, Typ: arr}, true
	case "fresh": // fresh(p): p was allocated by this call
		a := c.eval(args[0])
		old := c.Old
		if old == nil {
			evalFail("fresh outside a postcondition")
		}
		return scalar(And(IntLe(old.next, a.T[0]), IntLt(a.T[0], c.Heap.next)), types.Typ[types.Bool]), true
	case "allocated": // allocated(p): reference below the allocation counter
		a := c.eval(args[0])
		return scalar(And(IntLe(IntConst(0), a.T[0]), IntLt(a.T[0], c.heap().next)), types.Typ[types.Bool]), true
	case "sameslice": // sameslice(a, b): identical slice headers
		a, b := c.eval(args[0]), c.eval(args[1])
		return scalar(And(Eq(a.T[0], b.T[0]), Eq(a.T[1], b.T[1]), Eq(a.T[2], b.T[2]), Eq(a.T[3], b.T[3])), types.Typ[types.Bool]), true
	case "bytestore", "samebytes":
		// bytestore(sl, i, v): the backing array of slice sl now equals its old content with element i
		// (relative to the slice start) replaced by v.  samebytes(sl): the backing array is unchanged.
		// Quantifier-free array equations, so that frames follow by the array theory alone.
		a := c.eval(args[0])
		sl, ok := a.Typ.Underlying().(*types.Slice)
		if !ok || c.Old == nil {
			evalFail("%s expects a slice in a two-state context", name)
		}
		keys, sorts := elemKeys(sl.Elem())
		if len(keys) != 1 {
			evalFail("%s on composite element type", name)
		}
		cur := Select(x.H.Get(c.Heap, keys[0], wrapSort(sorts[0], 1)), a.T[0])
		old := Select(x.H.Get(c.Old, keys[0], wrapSort(sorts[0], 1)), a.T[0])
		if name == "samebytes" {
			return scalar(Eq(cur, old), types.Typ[types.Bool]), true
		}
		idx := c.asIndex(c.eval(args[1]))
		v := c.eval(args[2])
		if v.Typ == nil {
			v = c.coerce(v, sl.Elem())
		}
		return scalar(Eq(cur, Store(old, BVBin("bvadd", a.T[1], idx), v.One())), types.Typ[types.Bool]), true
	case "crc16of", "crc16xmodem", "crc32cof":
		// uninterpreted functions of a byte sequence (content and length)
		a := c.eval(args[0])
		if _, ok := a.Typ.Underlying().(*types.Slice); !ok {
			evalFail("%s expects a byte slice", name)
		}
		w := 16
		typ := types.Type(types.Typ[types.Uint16])
		if name == "crc32cof" {
			w, typ = 32, types.Typ[types.Uint32]
		}
		x.S.DeclareFun("uf_"+name, []Sort{SArr(SBV(64), SBV(8)), SBV(64)}, SBV(w))
		return scalar(app(SBV(w), "uf_"+name, x.normBytes(c.heap(), a), a.T[2]), typ), true
	case "digestcat": // digestcat(x, y, ...): 32-byte digest of the concatenation, as absorbed by hash.Hash Write calls
		x.S.DeclareFun("hcat", []Sort{SInt, SArr(SBV(64), SBV(8)), SBV(64)}, SInt)
		x.S.DeclareFun("hfin", []Sort{SInt}, SArr(SBV(64), SBV(8)))
		st := IntConst(0)
		for _, a := range args {
			v := c.eval(a)
			switch u := v.Typ.Underlying().(type) {
			case *types.Slice:
				st = app(SInt, "hcat", st, x.normBytes(c.heap(), v), v.T[2])
			case *types.Array:
				if u.Len() > 40 {
					evalFail("digestcat: array too long")
				}
				r := ConstArray(SArr(SBV(64), SBV(8)), BVInt(0, 8))
				for j := int64(0); j < u.Len(); j++ {
					r = Store(r, BVInt(j, 64), Select(v.T[0], BVInt(j, 64)))
				}
				st = app(SInt, "hcat", st, x.S.Define("norm", r), BVInt(u.Len(), 64))
			default:
				evalFail("digestcat: unsupported argument type %s", v.Typ)
			}
		}
		arr := types.NewArray(types.Typ[types.Uint8], 32)
		return Val{T: []Term{app(SArr(SBV(64), SBV(8)), "hfin", st)}, Typ: arr}, true
	case "later": // later(p, q): object p was allocated after object q (references are handed out in increasing order)
		a, b := c.eval(args[0]), c.eval(args[1])
		return scalar(IntLt(b.T[0], a.T[0]), types.Typ[types.Bool]), true
	case "arr": // arr(s): backing array reference of a slice (for aliasing statements)
		a := c.eval(args[0])
		return Val{T: []Term{a.T[0]}, Typ: types.Typ[types.UnsafePointer]}, true
	}
	return Val{}, false
}

// havocBytes makes the elements of a byte slice (and nothing else in its backing array) arbitrary.
func (f *frame) havocBytes(sl Val) {
	x := f.x
	m := x.H.Get(f.cur.heap, "M.uint8[]", wrapSort(SBV(8), 1))
	inner := Select(m, sl.T[0])
	fresh := x.S.Declare("hv_bytes", SArr(SBV(64), SBV(8)))
	var ni Term
	if c, ok := sl.T[2].Const(); ok && c.Cmp(big.NewInt(48)) <= 0 {
		ni = inner
		for j := int64(0); j < c.Int64(); j++ {
			at := BVBin("bvadd", sl.T[1], BVInt(j, 64))
			ni = Store(ni, at, Select(fresh, at))
		}
	} else {
		ni = lambdaArr(SBV(8), func(j Term) Term {
			return Ite(inRange(j, sl.T[1], sl.T[2]), Select(fresh, j), Select(inner, j))
		}, x)
	}
	f.cur.heap = x.H.SetAt(f.cur.heap, "M.uint8[]", sl.T[0], Store(m, sl.T[0], ni))
}
