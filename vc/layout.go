package main

// Flattening of Go types into vectors of SMT-sorted leaves.
//
//   integer/bool        -> one leaf (BV of the Go width / Bool)
//   string              -> one leaf of sort Int (handle) with strlen/strbyte functions
//   pointer, map, chan,
//   func, interface     -> one leaf of sort Int (reference / handle, 0 = nil)
//   slice               -> 4 leaves: .arr Int, .off BV64, .len BV64, .cap BV64
//   struct              -> concatenation of field leaves
//   [N]T                -> per leaf of T one leaf of sort (Array BV64 leafsort)
//   tuple               -> concatenation

import (
	"fmt"
	"go/types"
	"regexp"
	"strings"
)

type Leaf struct {
	Path string
	Sort Sort
	Typ  types.Type // Go type of the leaf when scalar (nil for array-lifted leaves keeps elem type)
}

var layoutCache = map[string][]Leaf{}

var byteRe = regexp.MustCompile(`\bbyte\b`)
var runeRe = regexp.MustCompile(`\brune\b`)

func typeKey(t types.Type) string {
	s := types.TypeString(t, func(p *types.Package) string { return p.Path() })
	s = byteRe.ReplaceAllString(s, "uint8")
	return runeRe.ReplaceAllString(s, "int32")
}

func intWidth(b *types.Basic) (w int, signed bool, ok bool) {
	switch b.Kind() {
	case types.Int8:
		return 8, true, true
	case types.Int16:
		return 16, true, true
	case types.Int32, types.UntypedRune:
		return 32, true, true
	case types.Int64, types.Int, types.UntypedInt:
		return 64, true, true
	case types.Uint8:
		return 8, false, true
	case types.Uint16:
		return 16, false, true
	case types.Uint32:
		return 32, false, true
	case types.Uint64, types.Uint, types.Uintptr:
		return 64, false, true
	}
	return 0, false, false
}

// isIntType reports the width/signedness of an integer type.
func isIntType(t types.Type) (int, bool, bool) {
	if b, ok := t.Underlying().(*types.Basic); ok {
		return intWidth(b)
	}
	return 0, false, false
}

func isBool(t types.Type) bool {
	b, ok := t.Underlying().(*types.Basic)
	return ok && (b.Kind() == types.Bool || b.Kind() == types.UntypedBool)
}

func isString(t types.Type) bool {
	b, ok := t.Underlying().(*types.Basic)
	return ok && (b.Kind() == types.String || b.Kind() == types.UntypedString)
}

func isFloat(t types.Type) bool {
	b, ok := t.Underlying().(*types.Basic)
	return ok && b.Info()&(types.IsFloat|types.IsComplex) != 0
}

func leaves(t types.Type) []Leaf {
	k := typeKey(t)
	if l, ok := layoutCache[k]; ok {
		return l
	}
	l := computeLeaves(t)
	layoutCache[k] = l
	return l
}

func computeLeaves(t types.Type) []Leaf {
	switch u := t.Underlying().(type) {
	case *types.Basic:
		if w, _, ok := intWidth(u); ok {
			return []Leaf{{"", SBV(w), t}}
		}
		if isBool(t) {
			return []Leaf{{"", SBool, t}}
		}
		if isString(t) {
			return []Leaf{{"", SInt, t}}
		}
		if u.Kind() == types.UnsafePointer || u.Kind() == types.UntypedNil {
			return []Leaf{{"", SInt, t}}
		}
		// floats etc: opaque
		return []Leaf{{"", SInt, t}}
	case *types.Pointer, *types.Map, *types.Chan, *types.Signature, *types.Interface:
		return []Leaf{{"", SInt, t}}
	case *types.Slice:
		return []Leaf{{".arr", SInt, nil}, {".off", SBV(64), nil}, {".len", SBV(64), nil}, {".cap", SBV(64), nil}}
	case *types.Struct:
		var out []Leaf
		for i := 0; i < u.NumFields(); i++ {
			f := u.Field(i)
			for _, l := range leaves(f.Type()) {
				out = append(out, Leaf{"." + f.Name() + l.Path, l.Sort, l.Typ})
			}
		}
		return out
	case *types.Array:
		var out []Leaf
		for _, l := range leaves(u.Elem()) {
			out = append(out, Leaf{"[]" + l.Path, SArr(SBV(64), l.Sort), l.Typ})
		}
		return out
	case *types.Tuple:
		var out []Leaf
		for i := 0; i < u.Len(); i++ {
			for _, l := range leaves(u.At(i).Type()) {
				out = append(out, Leaf{fmt.Sprintf("#%d%s", i, l.Path), l.Sort, l.Typ})
			}
		}
		return out
	case *types.TypeParam:
		return []Leaf{{"", SInt, t}}
	}
	panic("leaves: unsupported type " + t.String())
}

func nLeaves(t types.Type) int { return len(leaves(t)) }

// fieldRange returns the [lo,hi) leaf range of field i in struct type t.
func fieldRange(st *types.Struct, i int) (int, int) {
	lo := 0
	for j := 0; j < i; j++ {
		lo += nLeaves(st.Field(j).Type())
	}
	return lo, lo + nLeaves(st.Field(i).Type())
}

func tupleRange(tp *types.Tuple, i int) (int, int) {
	lo := 0
	for j := 0; j < i; j++ {
		lo += nLeaves(tp.At(j).Type())
	}
	return lo, lo + nLeaves(tp.At(i).Type())
}

// heapKey names the heap array holding leaf `path` of objects of (named or literal) type t.
func heapTypeName(t types.Type) string {
	s := typeKey(t)
	s = strings.ReplaceAll(s, "github.com/tonkeeper/tongo/", "")
	return sanitize(s)
}

// zeroLeaves gives the zero value of a type.
func zeroLeaves(t types.Type) []Term {
	ls := leaves(t)
	out := make([]Term, len(ls))
	for i, l := range ls {
		out[i] = zeroOfSort(l.Sort)
	}
	return out
}

func zeroOfSort(s Sort) Term {
	if w := s.BVWidth(); w > 0 {
		return BVInt(0, w)
	}
	if s == SBool {
		return False
	}
	if s == SInt {
		return IntConst(0)
	}
	if _, el, ok := s.ArrParts(); ok {
		return ConstArray(s, zeroOfSort(el))
	}
	panic("zeroOfSort " + string(s))
}
