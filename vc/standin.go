package main

// Bounded stand-ins: in-package Go tests from /verif/standins/<pkg>/ injected with `go test -overlay`
// and run on the real code. They are reported under coverage.bounded and never counted as proved.

import (
	"bytes"
	"context"
	"encoding/json"
	"fmt"
	"os"
	"os/exec"
	"path/filepath"
	"regexp"
	"strconv"
	"strings"
	"time"
)

type standinFailure struct {
	Name   string
	Output string
}

var failRe = regexp.MustCompile(`(?m)^\s*--- FAIL: (\S+)`)
var statRe = regexp.MustCompile(`(?m)STANDIN-STAT\s+(.*)$`)

func goEnv() []string {
	return append(os.Environ(), "GOFLAGS=-mod=mod", "GOPROXY=off", "GOSUMDB=off", "GOTOOLCHAIN=local")
}

func runStandin(repo, verif, prop, tier string, seed int64, si Standin) (map[string]interface{}, []standinFailure) {
	src := filepath.Join(verif, "standins", si.Pkg, si.File)
	dst := filepath.Join(repo, si.Pkg, "zz_standin_verif_"+si.File)
	ov := map[string]interface{}{"Replace": map[string]string{dst: src}}
	// helper files shared by the stand-ins of a package: *_helper_test.go
	helpers, _ := filepath.Glob(filepath.Join(verif, "standins", si.Pkg, "*_helper_test.go"))
	for _, h := range helpers {
		if h != src {
			ov["Replace"].(map[string]string)[filepath.Join(repo, si.Pkg, "zz_standin_verif_"+filepath.Base(h))] = h
		}
	}
	f, _ := os.CreateTemp("", "govc-ov-*.json")
	data, _ := json.Marshal(ov)
	f.Write(data)
	f.Close()
	defer os.Remove(f.Name())
	timeout := 600
	if tier == "thorough" {
		timeout = 3000
	}
	args := []string{"test", "-tags", "verif", "-overlay", f.Name(), "-vet=off", "-count=1", "-v", "-timeout", fmt.Sprintf("%ds", timeout), "-run", si.Run, "."}
	ctx, cancel := context.WithTimeout(context.Background(), time.Duration(timeout+30)*time.Second)
	defer cancel()
	cmd := exec.CommandContext(ctx, "go", args...)
	cmd.Dir = filepath.Join(repo, si.Pkg)
	cmd.Env = append(goEnv(), "VERIF_TIER="+tier, fmt.Sprintf("VERIF_SEED=%d", seed), "VERIF_PROP="+prop)
	var out bytes.Buffer
	cmd.Stdout = &out
	cmd.Stderr = &out
	start := time.Now()
	err := cmd.Run()
	secs := time.Since(start).Seconds()
	txt := out.String()
	rep := map[string]interface{}{
		"label":           "bounded",
		"file":            "standins/" + si.Pkg + "/" + si.File,
		"stands_in_for":   si.For,
		"bound":           si.Bound,
		"cmd":             "cd " + cmd.Dir + " && go " + strings.Join(args, " "),
		"secs":            round3(secs),
	}
	cases, distinct := 0, 0
	var stats []string
	for _, m := range statRe.FindAllStringSubmatch(txt, -1) {
		stats = append(stats, strings.TrimSpace(m[1]))
		for _, kv := range strings.Fields(m[1]) {
			if strings.HasPrefix(kv, "cases=") {
				n, _ := strconv.Atoi(kv[6:])
				cases += n
			}
			if strings.HasPrefix(kv, "distinct=") {
				n, _ := strconv.Atoi(kv[9:])
				distinct += n
			}
		}
	}
	rep["cases"] = cases
	rep["distinct"] = distinct
	rep["stats"] = stats
	var fails []standinFailure
	seen := map[string]bool{}
	var failedNames []string
	for _, m := range failRe.FindAllStringSubmatch(txt, -1) {
		failedNames = append(failedNames, m[1])
	}
	for _, m := range failRe.FindAllStringSubmatch(txt, -1) {
		// a parent test fails whenever one of its sub-tests does: report the sub-tests (root causes) only
		isParent := false
		for _, n := range failedNames {
			if strings.HasPrefix(n, m[1]+"/") {
				isParent = true
			}
		}
		if isParent {
			continue
		}
		if !seen[m[1]] {
			seen[m[1]] = true
			o := txt
			if len(o) > 6000 {
				o = o[len(o)-6000:]
			}
			fails = append(fails, standinFailure{Name: m[1], Output: o})
		}
	}
	if err != nil && len(fails) == 0 {
		o := txt
		if len(o) > 6000 {
			o = o[len(o)-6000:]
		}
		// A stand-in is an in-package test and may use unexported names. If it no longer compiles although the package
		// and its own tests still do (a harmless refactoring renamed something it uses), that says nothing about the
		// property: the stand-in is reported as skipped in the evidence and does not raise an alarm.
		if (strings.Contains(txt, "[build failed]") || strings.Contains(txt, "[setup failed]")) && (strings.Contains(txt, "zz_standin_verif_") || strings.Contains(txt, "/standins/")) && packageTestsBuild(cmd.Dir) {
			rep["skipped"] = "does not compile against this tree (the package and its own tests do): " + firstLines(txt, 6)
			rep["cases"], rep["distinct"], rep["failures"] = 0, 0, 0
			fmt.Printf("STANDIN-SKIPPED property=%s file=%s: does not compile against this tree; bounded coverage of this file is missing in this run\n", prop, si.File)
			return rep, nil
		}
		fails = append(fails, standinFailure{Name: "build-or-run", Output: o})
	}
	if err == nil && cases == 0 {
		fails = append(fails, standinFailure{Name: "vacuous", Output: "stand-in ran no cases:\n" + txt})
	}
	rep["failures"] = len(fails)
	return rep, fails
}

// packageTestsBuild reports whether the package in dir and its own test files compile (no overlay).
func packageTestsBuild(dir string) bool {
	ctx, cancel := context.WithTimeout(context.Background(), 300*time.Second)
	defer cancel()
	cmd := exec.CommandContext(ctx, "go", "test", "-vet=off", "-count=1", "-run", "^$", ".")
	cmd.Dir = dir
	cmd.Env = goEnv()
	return cmd.Run() == nil
}

func firstLines(s string, n int) string {
	ls := strings.Split(s, "\n")
	if len(ls) > n {
		ls = ls[:n]
	}
	return strings.Join(ls, " | ")
}
