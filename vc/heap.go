package main

// Burstall-Bornat heap, persistent and lazily merged.
//
// A heap key names one SMT array:
//   H.<Struct><leafpath>   : Array Int leafsort            (field leaf of struct objects, by reference)
//   M.<Elem>[]<leafpath>   : Array Int (Array BV64 leaf)   (backing arrays of slices / array objects)
//   C.<Type><leafpath>     : Array Int leafsort            (cells of other addressable values)
// Unseen keys resolve to the constant of the state's base epoch, declared on demand.

import (
	"fmt"
	"go/types"
	"sort"
	"strings"
)

type HeapState struct {
	kind   int // 0 base, 1 update, 2 merge
	epoch  int
	parent *HeapState
	key    string
	val    Term
	conds  []Term
	kids   []*HeapState
	memo   map[string]Term
	next   Term
}

type HeapEnv struct {
	S      *Script
	sorts  map[string]Sort
	epochs int
	// onWrite records keys written, with the reference written at when known (loop havoc discovery)
	onWrite func(key string, ref *Term)
	curRef  *Term
}

func NewHeapEnv(s *Script) *HeapEnv { return &HeapEnv{S: s, sorts: map[string]Sort{}} }

func (he *HeapEnv) Base(next Term) *HeapState {
	h := &HeapState{kind: 0, epoch: he.epochs, memo: map[string]Term{}, next: next}
	he.epochs++
	return h
}

func (he *HeapEnv) sortOf(key string, sort Sort) Sort {
	if s, ok := he.sorts[key]; ok {
		if sort != "" && s != sort {
			panic(fmt.Sprintf("heap key %s used at sorts %s and %s", key, s, sort))
		}
		return s
	}
	if sort == "" {
		panic("heap key " + key + " of unknown sort")
	}
	he.sorts[key] = sort
	return sort
}

func (he *HeapEnv) Get(h *HeapState, key string, sort Sort) Term {
	sort = he.sortOf(key, sort)
	if t, ok := h.memo[key]; ok {
		return t
	}
	var t Term
	switch h.kind {
	case 0:
		t = he.S.DeclareNamed(fmt.Sprintf("%s@%d", sanitize(key), h.epoch), sort)
	case 1:
		if h.key == key {
			t = h.val
		} else {
			t = he.Get(h.parent, key, sort)
		}
	case 2:
		vals := make([]Term, len(h.kids))
		same := true
		for i, k := range h.kids {
			vals[i] = he.Get(k, key, sort)
			if vals[i].S != vals[0].S {
				same = false
			}
		}
		if same {
			t = vals[0]
		} else {
			t = vals[len(vals)-1]
			for i := len(vals) - 2; i >= 0; i-- {
				t = Ite(h.conds[i], vals[i], t)
			}
			t = he.S.Define("hm_"+key, t)
		}
	}
	h.memo[key] = t
	return t
}

func (he *HeapEnv) Set(h *HeapState, key string, val Term) *HeapState {
	he.sortOf(key, val.Sort)
	if he.onWrite != nil {
		he.onWrite(key, he.curRef)
	}
	val = he.S.Define("h_"+key, val)
	return &HeapState{kind: 1, parent: h, key: key, val: val, memo: map[string]Term{}, next: h.next}
}

// SetAt is Set with the written reference made known to the write observer.
func (he *HeapEnv) SetAt(h *HeapState, key string, ref Term, val Term) *HeapState {
	he.curRef = &ref
	defer func() { he.curRef = nil }()
	return he.Set(h, key, val)
}

func (he *HeapEnv) WithNext(h *HeapState, next Term) *HeapState {
	c := *h
	c.memo = map[string]Term{}
	c.kind = 1
	c.parent = h
	c.key = ""
	c.next = next
	return &c
}

func (he *HeapEnv) Merge(conds []Term, kids []*HeapState) *HeapState {
	if len(kids) == 1 {
		return kids[0]
	}
	same := true
	for _, k := range kids {
		if k != kids[0] {
			same = false
		}
	}
	if same {
		return kids[0]
	}
	next := kids[len(kids)-1].next
	for i := len(kids) - 2; i >= 0; i-- {
		next = Ite(conds[i], kids[i].next, next)
	}
	next = he.S.Define("next", next)
	return &HeapState{kind: 2, conds: conds, kids: kids, memo: map[string]Term{}, next: next}
}

// HavocAll returns a state in which every key is unconstrained.
func (he *HeapEnv) HavocAll(h *HeapState) *HeapState {
	nx := he.S.Declare("next", SInt)
	he.S.Assert(IntLt(nx, IntConst(1<<39)))
	he.S.Assert(IntLe(h.next, nx))
	if he.onWrite != nil {
		he.onWrite("*", nil)
	}
	return he.Base(nx)
}

// HavocKeys replaces the given keys with fresh arrays.
func (he *HeapEnv) HavocKeys(h *HeapState, keys []string) *HeapState {
	sort.Strings(keys)
	for _, k := range keys {
		s, ok := he.sorts[k]
		if !ok {
			continue
		}
		h = he.Set(h, k, he.S.Declare("hv_"+k, s))
	}
	return h
}

// ---------------------------------------------------------------------------
// Locations.

type Loc struct {
	Prefix  string
	Ref     Term
	Chain   []Term
	T       types.Type
	Root    bool   // designates a whole object: convertible to a reference value
	Orig    Term   // for objects embedded in another object: the enclosing object's reference ...
	OrigKey string // ... and the field path from it
}

func objectLoc(ref Term, t types.Type) *Loc {
	switch t.Underlying().(type) {
	case *types.Struct:
		return &Loc{Prefix: "H." + heapTypeName(t), Ref: ref, T: t, Root: true}
	case *types.Array:
		el := t.Underlying().(*types.Array).Elem()
		return &Loc{Prefix: "M." + heapTypeName(el), Ref: ref, T: t, Root: true}
	}
	return &Loc{Prefix: "C." + heapTypeName(t), Ref: ref, T: t, Root: true}
}

var embIDs = map[string]int64{}

// embRef is the reference of the backing array that holds an array-typed field embedded in the
// struct object at ref: an injective map into a reference range no allocation or global uses.
func embRef(ref Term, fieldKey string) Term {
	id, ok := embIDs[fieldKey]
	if !ok {
		id = int64(len(embIDs) + 1)
		embIDs[fieldKey] = id
	}
	return Term{fmt.Sprintf("(- (- %d) %s)", id<<40, ref.S), SInt}
}

func (l *Loc) Field(i int) *Loc {
	st := l.T.Underlying().(*types.Struct)
	f := st.Field(i)
	if len(l.Chain) == 0 && !strings.Contains(l.Prefix, "[]") {
		// arrays and structs embedded in an object are modelled as objects of their own at a
		// reference derived injectively from the enclosing object's, so that they can be sliced
		// and pointed to.
		base, key := l.Ref, l.Prefix+"."+f.Name()
		if l.OrigKey != "" {
			base, key = l.Orig, l.OrigKey+"."+f.Name()
		}
		switch u := f.Type().Underlying().(type) {
		case *types.Array:
			return &Loc{Prefix: "M." + heapTypeName(u.Elem()), Ref: embRef(base, key), T: f.Type(), Root: true, Orig: base, OrigKey: key}
		case *types.Struct:
			return &Loc{Prefix: "H." + heapTypeName(f.Type()), Ref: embRef(base, key), T: f.Type(), Root: true, Orig: base, OrigKey: key}
		}
	}
	return &Loc{Prefix: l.Prefix + "." + f.Name(), Ref: l.Ref, Chain: l.Chain, T: f.Type()}
}

func (l *Loc) Index(idx Term) *Loc {
	at := l.T.Underlying().(*types.Array)
	ch := append(append([]Term{}, l.Chain...), idx)
	return &Loc{Prefix: l.Prefix + "[]", Ref: l.Ref, Chain: ch, T: at.Elem()}
}

func sliceElemLoc(arr, idx Term, elem types.Type) *Loc {
	return &Loc{Prefix: "M." + heapTypeName(elem) + "[]", Ref: arr, Chain: []Term{idx}, T: elem}
}

func wrapSort(leaf Sort, depth int) Sort {
	s := leaf
	for i := 0; i < depth; i++ {
		s = SArr(SBV(64), s)
	}
	return SArr(SInt, s)
}

func (he *HeapEnv) Load(h *HeapState, l *Loc) []Term {
	if st, ok := l.T.Underlying().(*types.Struct); ok {
		var out []Term
		for i := 0; i < st.NumFields(); i++ {
			out = append(out, he.Load(h, l.Field(i))...)
		}
		return out
	}
	ls := leaves(l.T)
	out := make([]Term, len(ls))
	for i, lf := range ls {
		key := l.Prefix + lf.Path
		a := he.Get(h, key, wrapSort(lf.Sort, len(l.Chain)))
		v := Select(a, l.Ref)
		for _, ix := range l.Chain {
			v = Select(v, ix)
		}
		out[i] = v
	}
	return out
}

func (he *HeapEnv) StoreLoc(h *HeapState, l *Loc, vals []Term) *HeapState {
	if st, ok := l.T.Underlying().(*types.Struct); ok {
		lo := 0
		for i := 0; i < st.NumFields(); i++ {
			n := nLeaves(st.Field(i).Type())
			h = he.StoreLoc(h, l.Field(i), vals[lo:lo+n])
			lo += n
		}
		return h
	}
	ls := leaves(l.T)
	if len(ls) != len(vals) {
		panic(fmt.Sprintf("StoreLoc: %d leaves vs %d values for %s", len(ls), len(vals), l.T))
	}
	for i, lf := range ls {
		key := l.Prefix + lf.Path
		a := he.Get(h, key, wrapSort(lf.Sort, len(l.Chain)))
		h = he.SetAt(h, key, l.Ref, Store(a, l.Ref, nestedStore(Select(a, l.Ref), l.Chain, vals[i])))
	}
	return h
}

func nestedStore(base Term, chain []Term, v Term) Term {
	if len(chain) == 0 {
		return v
	}
	inner := nestedStore(Select(base, chain[0]), chain[1:], v)
	return Store(base, chain[0], inner)
}
