package main

// Contract files: comment-only Go files whose `//@` lines carry Gobra-style clauses.
//
//   //@ pred name(p T, ...) := expr
//   //@ spec name(p T, ...) R := expr
//   //@ func (r *T) Name(a A, b B) (x X, err error)      <- opens a function contract; names bind positionally
//   //@   props C06 C01
//   //@   requires [label:] expr
//   //@   ensures  [label:] expr
//   //@   modifies loc, loc, ...        (s.len | s.buf[*] | * | nothing)
//   //@   loop N invariant [label:] expr
//   //@   loop N decreases expr
//   //@   decreases expr               (recursion measure; informational for non-recursive)
//   //@   trusted                      (contract assumed, body not verified; listed as assumption)
//   //@   inline                       (no contract use at call sites; always inlined)
//   //@   nopanic                      (callers may rely on absence of panics; implied for verified functions)
//   //@   alloc expr                   (bound on the size operand of every make/append growth, in elements)
//   //@+  continuation of the previous clause
//
// Expression language: Go expressions plus `a ==> b` (lowest precedence, right assoc),
// `forall i T :: e`, `exists i T :: e`, `old(e)`, `result` / `result0..n`.

import (
	"fmt"
	"go/ast"
	"go/parser"
	"go/token"
	"os"
	"regexp"
	"strconv"
	"strings"
)

type Clause struct {
	Kind  string
	Label string
	Text  string
	Expr  ast.Expr
	Where string // file:line of the clause
}

type LoopContract struct {
	Continues  []Clause // must hold whenever control takes the loop's back edge (locals of the body in scope)
	Invariants []Clause
	Decreases  *Clause
}

type FuncContract struct {
	PkgPath     string
	Recv        string // receiver type name without '*', "" for functions
	Name        string
	ParamNames  []string // receiver first (if any)
	ResultNames []string
	Requires    []Clause
	Ensures     []Clause
	Assumes     []Clause // postconditions assumed at call sites but NOT proved (each is listed as an assumption)
	Finals      []Clause // assertions at every return, with the function's locals in scope (not exported to callers)
	Modifies    []ast.Expr
	ModAll      bool // no modifies clause given, or `modifies *`
	HasModifies bool
	Loops       map[int]*LoopContract
	Props       []string
	Trusted     bool
	Inline      bool
	InlineCallees map[string]bool // `inline <callee>`: calls to that callee from this function are inlined although it has a contract
	Opaque      bool // never inlined, no contract: calls havoc memory and results (listed as unspecified callee)
	Pure        bool
	Alloc       *Clause
	Decreases   *Clause
	Where       string
	SigText     string
}

func (fc *FuncContract) Key() string {
	if fc.Recv != "" {
		return fc.PkgPath + "." + fc.Recv + "." + fc.Name
	}
	return fc.PkgPath + "." + fc.Name
}

func (fc *FuncContract) HasProp(p string) bool {
	for _, q := range fc.Props {
		if q == p {
			return true
		}
	}
	return false
}

type SpecParam struct {
	Name string
	Type ast.Expr
}

type SpecFunc struct {
	Uninterpreted bool // `ufunc`: declared, never defined
	Name    string
	PkgPath string
	Params  []SpecParam
	Result  ast.Expr // nil for pred (bool)
	Body    ast.Expr
	Where   string
}

type ContractSet struct {
	TypeInvs map[string]string      // pkgpath.TypeName -> predicate name assumed of every non-nil pointer to it
	Funcs map[string]*FuncContract // by Key()
	Specs map[string]*SpecFunc     // by pkgpath + "." + name
	Order []*FuncContract
}

func NewContractSet() *ContractSet {
	return &ContractSet{Funcs: map[string]*FuncContract{}, Specs: map[string]*SpecFunc{}, TypeInvs: map[string]string{}}
}

var clauseLine = regexp.MustCompile(`^\s*//\s?@(\+?)\s?(.*)$`)

// ParseContractFile reads the //@ clauses of one file belonging to package pkgPath.
func (cs *ContractSet) ParseContractFile(path string, pkgPath string) error {
	data, err := os.ReadFile(path)
	if err != nil {
		return err
	}
	return cs.ParseContractText(string(data), path, pkgPath)
}

func (cs *ContractSet) ParseContractText(text, path, pkgPath string) error {
	type rawClause struct {
		text string
		line int
	}
	var raws []rawClause
	for i, ln := range strings.Split(text, "\n") {
		m := clauseLine.FindStringSubmatch(ln)
		if m == nil {
			continue
		}
		body := strings.TrimSpace(m[2])
		if body == "" {
			continue
		}
		if m[1] == "+" {
			if len(raws) == 0 {
				return fmt.Errorf("%s:%d: continuation without clause", path, i+1)
			}
			raws[len(raws)-1].text += " " + body
			continue
		}
		raws = append(raws, rawClause{body, i + 1})
	}
	var cur *FuncContract
	for _, rc := range raws {
		where := fmt.Sprintf("%s:%d", path, rc.line)
		word, rest := splitWord(rc.text)
		switch word {
		case "typeinv": // typeinv TypeName predName
			fs := strings.Fields(rest)
			if len(fs) != 2 {
				return fmt.Errorf("%s: typeinv TypeName pred", where)
			}
			cs.TypeInvs[pkgPath+"."+fs[0]] = fs[1]
		case "ufunc":
			sf, err := parseSpecFunc("spec", rest+" := 0", pkgPath, where)
			if err != nil {
				return fmt.Errorf("%s: %v", where, err)
			}
			sf.Uninterpreted = true
			cs.Specs[pkgPath+"."+sf.Name] = sf
		case "pred", "spec":
			sf, err := parseSpecFunc(word, rest, pkgPath, where)
			if err != nil {
				return fmt.Errorf("%s: %v", where, err)
			}
			cs.Specs[pkgPath+"."+sf.Name] = sf
		case "func":
			fc, err := parseFuncHeader(rc.text, pkgPath, where)
			if err != nil {
				return fmt.Errorf("%s: %v", where, err)
			}
			if _, dup := cs.Funcs[fc.Key()]; dup {
				return fmt.Errorf("%s: duplicate contract for %s", where, fc.Key())
			}
			cs.Funcs[fc.Key()] = fc
			cs.Order = append(cs.Order, fc)
			cur = fc
		default:
			if cur == nil {
				return fmt.Errorf("%s: clause %q outside a func contract", where, word)
			}
			if err := cur.addClause(word, rest, where); err != nil {
				return fmt.Errorf("%s: %v", where, err)
			}
		}
	}
	return nil
}

func splitWord(s string) (string, string) {
	s = strings.TrimSpace(s)
	i := strings.IndexAny(s, " \t")
	if i < 0 {
		return s, ""
	}
	return s[:i], strings.TrimSpace(s[i+1:])
}

var labelRe = regexp.MustCompile(`^([A-Za-z_][A-Za-z0-9_]*):\s+(.*)$`)

func parseLabeled(kind, text, where string) (Clause, error) {
	c := Clause{Kind: kind, Text: text, Where: where}
	if m := labelRe.FindStringSubmatch(text); m != nil {
		c.Label = m[1]
		c.Text = m[2]
	}
	e, err := ParseSpecExpr(c.Text)
	if err != nil {
		return c, fmt.Errorf("in %q: %v", c.Text, err)
	}
	c.Expr = e
	return c, nil
}

func (fc *FuncContract) addClause(word, rest, where string) error {
	switch word {
	case "props":
		fc.Props = append(fc.Props, strings.Fields(rest)...)
	case "requires":
		c, err := parseLabeled("requires", rest, where)
		if err != nil {
			return err
		}
		fc.Requires = append(fc.Requires, c)
	case "ensures":
		c, err := parseLabeled("ensures", rest, where)
		if err != nil {
			return err
		}
		fc.Ensures = append(fc.Ensures, c)
	case "assume":
		c, err := parseLabeled("assume", rest, where)
		if err != nil {
			return err
		}
		fc.Assumes = append(fc.Assumes, c)
	case "final":
		c, err := parseLabeled("final", rest, where)
		if err != nil {
			return err
		}
		fc.Finals = append(fc.Finals, c)
	case "modifies":
		fc.HasModifies = true
		fc.ModAll = false
		for _, part := range splitTop(rest, ',') {
			part = strings.TrimSpace(part)
			if part == "*" {
				fc.ModAll = true
				continue
			}
			if part == "nothing" || part == "" {
				continue
			}
			part = strings.ReplaceAll(part, "[*]", "[0]")
			e, err := parser.ParseExpr(part)
			if err != nil {
				return fmt.Errorf("modifies %q: %v", part, err)
			}
			fc.Modifies = append(fc.Modifies, e)
		}
	case "pure":
		fc.Pure = true
		fc.HasModifies = true
		fc.ModAll = false
	case "trusted":
		fc.Trusted = true
	case "inline":
		if name := strings.TrimSpace(rest); name != "" {
			if fc.InlineCallees == nil {
				fc.InlineCallees = map[string]bool{}
			}
			fc.InlineCallees[name] = true
		} else {
			fc.Inline = true
		}
	case "opaque":
		fc.Opaque = true
	case "alloc":
		c, err := parseLabeled("alloc", rest, where)
		if err != nil {
			return err
		}
		fc.Alloc = &c
	case "decreases":
		c, err := parseLabeled("decreases", rest, where)
		if err != nil {
			return err
		}
		fc.Decreases = &c
	case "loop":
		ns, rest2 := splitWord(rest)
		n, err := strconv.Atoi(ns)
		if err != nil {
			return fmt.Errorf("loop ordinal: %v", err)
		}
		kind, rest3 := splitWord(rest2)
		lc := fc.Loops[n]
		if lc == nil {
			lc = &LoopContract{}
			fc.Loops[n] = lc
		}
		switch kind {
		case "invariant":
			c, err := parseLabeled("invariant", rest3, where)
			if err != nil {
				return err
			}
			lc.Invariants = append(lc.Invariants, c)
		case "decreases":
			c, err := parseLabeled("decreases", rest3, where)
			if err != nil {
				return err
			}
			lc.Decreases = &c
		case "continues":
			c, err := parseLabeled("continues", rest3, where)
			if err != nil {
				return err
			}
			lc.Continues = append(lc.Continues, c)
		default:
			return fmt.Errorf("unknown loop clause %q", kind)
		}
	default:
		return fmt.Errorf("unknown clause keyword %q", word)
	}
	return nil
}

func parseFuncHeader(text, pkgPath, where string) (*FuncContract, error) {
	src := "package p\n" + text + " {}\n"
	fset := token.NewFileSet()
	f, err := parser.ParseFile(fset, "", src, 0)
	if err != nil {
		return nil, fmt.Errorf("func header %q: %v", text, err)
	}
	fd, ok := f.Decls[0].(*ast.FuncDecl)
	if !ok {
		return nil, fmt.Errorf("not a func header: %q", text)
	}
	fc := &FuncContract{PkgPath: pkgPath, Name: fd.Name.Name, Loops: map[int]*LoopContract{}, ModAll: true, Where: where, SigText: text}
	if fd.Recv != nil && len(fd.Recv.List) == 1 {
		r := fd.Recv.List[0]
		t := r.Type
		if st, ok := t.(*ast.StarExpr); ok {
			t = st.X
		}
		if ix, ok := t.(*ast.IndexExpr); ok {
			t = ix.X
		}
		if id, ok := t.(*ast.Ident); ok {
			fc.Recv = id.Name
		}
		if len(r.Names) == 1 {
			fc.ParamNames = append(fc.ParamNames, r.Names[0].Name)
		} else {
			fc.ParamNames = append(fc.ParamNames, "_")
		}
	}
	if fd.Type.Params != nil {
		for _, p := range fd.Type.Params.List {
			if len(p.Names) == 0 {
				fc.ParamNames = append(fc.ParamNames, "_")
			}
			for _, n := range p.Names {
				fc.ParamNames = append(fc.ParamNames, n.Name)
			}
		}
	}
	if fd.Type.Results != nil {
		for _, p := range fd.Type.Results.List {
			if len(p.Names) == 0 {
				fc.ResultNames = append(fc.ResultNames, "")
			}
			for _, n := range p.Names {
				fc.ResultNames = append(fc.ResultNames, n.Name)
			}
		}
	}
	return fc, nil
}

func parseSpecFunc(kind, rest, pkgPath, where string) (*SpecFunc, error) {
	i := strings.Index(rest, ":=")
	if i < 0 {
		return nil, fmt.Errorf("%s without :=", kind)
	}
	head := strings.TrimSpace(rest[:i])
	body := strings.TrimSpace(rest[i+2:])
	src := "package p\nfunc " + head + " {}\n"
	fset := token.NewFileSet()
	f, err := parser.ParseFile(fset, "", src, 0)
	if err != nil {
		return nil, fmt.Errorf("%s header %q: %v", kind, head, err)
	}
	fd := f.Decls[0].(*ast.FuncDecl)
	sf := &SpecFunc{Name: fd.Name.Name, PkgPath: pkgPath, Where: where}
	for _, p := range fd.Type.Params.List {
		for _, n := range p.Names {
			sf.Params = append(sf.Params, SpecParam{n.Name, p.Type})
		}
	}
	if kind == "spec" {
		if fd.Type.Results == nil || len(fd.Type.Results.List) != 1 {
			return nil, fmt.Errorf("spec %s needs exactly one result type", sf.Name)
		}
		sf.Result = fd.Type.Results.List[0].Type
	}
	e, err := ParseSpecExpr(body)
	if err != nil {
		return nil, fmt.Errorf("body of %s: %v", sf.Name, err)
	}
	sf.Body = e
	return sf, nil
}

// ---------------------------------------------------------------------------
// Expression pre-pass: ==>, forall, exists  ->  plain Go call syntax.

func ParseSpecExpr(s string) (ast.Expr, error) {
	t := transformSpec(s)
	e, err := parser.ParseExpr(t)
	if err != nil {
		return nil, fmt.Errorf("%v (after rewriting to %q)", err, t)
	}
	return e, nil
}

func transformSpec(s string) string {
	t := strings.TrimSpace(s)
	for _, q := range []string{"forall", "exists"} {
		if strings.HasPrefix(t, q+" ") {
			i := indexTop(t, "::")
			if i < 0 {
				return t
			}
			binder := strings.TrimSpace(t[len(q):i])
			body := transformSpec(t[i+2:])
			return fmt.Sprintf("__%s(func(%s) bool { return %s })", q, binder, body)
		}
	}
	if i := indexTop(t, "==>"); i >= 0 {
		return "__imp(" + transformGroups(t[:i]) + ", " + transformSpec(t[i+3:]) + ")"
	}
	return transformGroups(t)
}

// indexTop finds the first occurrence of pat at bracket depth 0 outside string literals.
func indexTop(s, pat string) int {
	d := 0
	for i := 0; i < len(s); i++ {
		c := s[i]
		switch c {
		case '"', '\'', '`':
			j := i + 1
			for j < len(s) && s[j] != c {
				if s[j] == '\\' {
					j++
				}
				j++
			}
			i = j
			continue
		case '(', '[', '{':
			d++
		case ')', ']', '}':
			d--
		}
		if d == 0 && strings.HasPrefix(s[i:], pat) {
			return i
		}
	}
	return -1
}

func splitTop(s string, sep byte) []string {
	var parts []string
	d := 0
	start := 0
	for i := 0; i < len(s); i++ {
		c := s[i]
		switch c {
		case '"', '\'', '`':
			j := i + 1
			for j < len(s) && s[j] != c {
				if s[j] == '\\' {
					j++
				}
				j++
			}
			i = j
			continue
		case '(', '[', '{':
			d++
		case ')', ']', '}':
			d--
		}
		if d == 0 && c == sep {
			parts = append(parts, s[start:i])
			start = i + 1
		}
	}
	parts = append(parts, s[start:])
	return parts
}

// transformGroups rewrites the contents of every top-level bracket group recursively.
func transformGroups(s string) string {
	var b strings.Builder
	for i := 0; i < len(s); i++ {
		c := s[i]
		switch c {
		case '"', '\'', '`':
			j := i + 1
			for j < len(s) && s[j] != c {
				if s[j] == '\\' {
					j++
				}
				j++
			}
			if j >= len(s) {
				j = len(s) - 1
			}
			b.WriteString(s[i : j+1])
			i = j
			continue
		case '(', '[':
			closeCh := byte(')')
			if c == '[' {
				closeCh = ']'
			}
			d := 0
			j := i
			for ; j < len(s); j++ {
				if s[j] == '(' || s[j] == '[' || s[j] == '{' {
					d++
				} else if s[j] == ')' || s[j] == ']' || s[j] == '}' {
					d--
					if d == 0 {
						break
					}
				}
			}
			if j >= len(s) {
				b.WriteString(s[i:])
				return b.String()
			}
			inner := s[i+1 : j]
			b.WriteByte(c)
			if c == '[' && strings.Contains(inner, ":") && indexTop(inner, "::") < 0 {
				// slice expression: transform the parts separately
				ps := splitTop(inner, ':')
				for k, p := range ps {
					if k > 0 {
						b.WriteByte(':')
					}
					if strings.TrimSpace(p) != "" {
						b.WriteString(transformSpec(p))
					}
				}
			} else {
				ps := splitTop(inner, ',')
				for k, p := range ps {
					if k > 0 {
						b.WriteString(", ")
					}
					if strings.TrimSpace(p) != "" {
						b.WriteString(transformSpec(p))
					}
				}
			}
			b.WriteByte(closeCh)
			i = j
			continue
		}
		b.WriteByte(c)
	}
	return b.String()
}
